From LB Require Import Base.Prelude Repl.Acks.
From Coq Require Import ZifyBool.
Open Scope Z_scope.

(* an ack that names a stored message: its offset holds exactly the message with its correlation id and policy *)
Definition names_stored (log : list pmsg) (a : ack) : Prop :=
  0 <= ak_offset a /\ exists m, nth_error log (Z.to_nat (ak_offset a)) = Some m /\ pm_corr m = ak_corr a /\ pm_policy m = ak_policy a.

Definition QInv (s : lstate) : Prop := forall a, In a (l_queue s) -> ak_kind a = AOk /\ names_stored (l_log s) a.

Lemma names_stored_grow log l a : names_stored log a -> names_stored (log ++ l) a.
Proof.
  intros (H0 & m & Hn & Hc & Hp). split; [exact H0|]. exists m. split; [|split; assumption].
  rewrite nth_error_app1; [exact Hn|]. apply nth_error_Some. congruence.
Qed.

(* ---- the commit rule ---- *)
Lemma min_offset_le isr r o : In (r, o) isr -> min_offset isr <= o.
Proof.
  unfold min_offset. destruct isr as [|[r0 o0] t]; [intros []|].
  assert (G : forall (l : list (N * Z)) acc, fold_left (fun m (x : N * Z) => Z.min m (snd x)) l acc <= acc /\ (forall x, In x l -> fold_left (fun m (x : N * Z) => Z.min m (snd x)) l acc <= snd x)).
  { induction l as [|[r1 o1] l IH]; intros acc; cbn [fold_left snd]; [split; [lia|intros x []]|].
    destruct (IH (Z.min acc o1)) as [H1 H2]. split; [lia|]. intros x [<-|Hx]; [cbn [snd]; lia|apply H2; exact Hx]. }
  intros [[= -> ->]|Hin]; [apply G|apply (proj2 (G t o0) (r, o) Hin)].
Qed.

Lemma commit_spec s s' out : commit s = (s', out) ->
  l_log s' = l_log s /\ l_isr s' = l_isr s /\ l_min_isr s' = l_min_isr s /\ l_hw s <= l_hw s' /\
  (forall a, In a (l_queue s') -> In a (l_queue s)) /\
  (forall a, In a out -> In a (l_queue s) /\ ak_policy a = PAll /\ (l_min_isr s <= length (l_isr s))%nat /\
                         (forall r o, In (r, o) (l_isr s) -> ak_offset a <= o) /\ ak_offset a <= l_hw s').
Proof.
  unfold commit. destruct (Nat.ltb_spec (length (l_isr s)) (l_min_isr s)) as [Hlt|Hge].
  - intros [= <- <-]. split; [reflexivity|]. split; [reflexivity|]. split; [reflexivity|]. split; [lia|]. split; [intros a Ha; exact Ha|intros a []].
  - intros [= <- <-]. cbn [l_log l_isr l_min_isr l_hw l_queue]. split; [reflexivity|]. split; [reflexivity|]. split; [reflexivity|]. split; [lia|].
    split; [intros a Ha; apply filter_In in Ha; apply Ha|].
    intros a Ha. apply filter_In in Ha. destruct Ha as [Ha Hp]. apply filter_In in Ha. destruct Ha as [Hq Hle].
    split; [exact Hq|]. split; [destruct (ak_policy a); try discriminate; reflexivity|]. split; [exact Hge|]. split.
    + intros r o Hin. pose proof (min_offset_le _ _ _ Hin). lia.
    + lia.
Qed.

Lemma commit_qinv s s' out : QInv s -> commit s = (s', out) -> QInv s'.
Proof.
  intros HQ H. destruct (commit_spec s s' out H) as (Hl & _ & _ & _ & Hq & _). intros a Ha. rewrite Hl. apply HQ. apply Hq. exact Ha.
Qed.

(* ---- storing a batch ---- *)
Lemma in_combine_seq {A} (ms : list A) k i m : In (i, m) (combine (seq k (length ms)) ms) -> (k <= i)%nat /\ nth_error ms (i - k) = Some m.
Proof.
  revert k. induction ms as [|y t IH]; intros k H; [destruct H|]. cbn [length seq combine] in H. destruct H as [[= <- <-]|H].
  - split; [lia|]. rewrite Nat.sub_diag. reflexivity.
  - destruct (IH (S k) H) as [H1 H2]. split; [lia|]. replace (i - k)%nat with (S (i - S k)) by lia. exact H2.
Qed.

(* the acks built for a stored batch name what was stored *)
Lemma batch_ack_stored log ms a :
  In a (map (fun im => mkAck (pm_corr (snd im)) (pm_policy (snd im)) (Z.of_nat (length log) - 1 + 1 + Z.of_nat (fst im)) AOk) (combine (seq 0 (length ms)) ms)) ->
  ak_kind a = AOk /\ names_stored (log ++ ms) a /\ Z.of_nat (length log) <= ak_offset a.
Proof.
  intros H. apply in_map_iff in H. destruct H as ([i m] & <- & Hin). cbn [fst snd ak_kind ak_offset ak_corr ak_policy].
  destruct (in_combine_seq ms 0 i m Hin) as [_ Hn]. rewrite Nat.sub_0_r in Hn.
  split; [reflexivity|]. split; [|lia]. unfold names_stored. cbn [ak_offset ak_corr ak_policy]. split; [lia|]. exists m. split; [|split; reflexivity].
  replace (Z.to_nat (Z.of_nat (length log) - 1 + 1 + Z.of_nat i)) with (length log + i)%nat by lia.
  rewrite nth_error_app2 by lia. replace (length log + i - length log)%nat with i by lia. exact Hn.
Qed.

Definition stored_now (s s' : lstate) (a : ack) : Prop :=
  names_stored (l_log s') a /\ Z.of_nat (length (l_log s)) <= ak_offset a.

Definition batch_ack_ok (s s' : lstate) (a : ack) : Prop :=
  match ak_kind a with
  | AOk =>
    match ak_policy a with
    | PLeader => stored_now s s' a
    | PAll => names_stored (l_log s') a /\ (l_min_isr s' <= length (l_isr s'))%nat /\ (forall r o, In (r, o) (l_isr s') -> ak_offset a <= o) /\ ak_offset a <= l_hw s'
    | PNone => False
    end
  | ATooLarge | AEncryption | ARefused => False
  | AIncorrectOffset => l_log s' = l_log s
  end.

Lemma store_ok_spec s ms s' out : QInv s -> store_ok s ms = (s', out) ->
  QInv s' /\ l_log s' = l_log s ++ ms /\ forall a, In a out -> batch_ack_ok s s' a.
Proof.
  intros HQ H. unfold store_ok, newest in H.
  set (acks := map (fun im => mkAck (pm_corr (snd im)) (pm_policy (snd im)) (Z.of_nat (length (l_log s)) - 1 + 1 + Z.of_nat (fst im)) AOk) (combine (seq 0 (length ms)) ms)) in *.
  match type of H with (let '(s2, cacks) := commit ?S1 in _) = _ => set (s1 := S1) in * end.
  destruct (commit s1) as [s2 cacks] eqn:Ec. injection H as <- <-.
  assert (HQ1 : QInv s1).
  { intros a Ha. unfold s1 in Ha. cbn [l_queue l_log] in *. apply in_app_or in Ha. destruct Ha as [Ha|Ha].
    - destruct (HQ a Ha) as [H1 H2]. split; [exact H1|apply names_stored_grow; exact H2].
    - assert (Hin : In a acks) by (destruct (rf1 s); [apply filter_In in Ha; apply Ha|exact Ha]).
      destruct (batch_ack_stored _ _ _ Hin) as (H1 & H2 & _). split; assumption. }
  destruct (commit_spec s1 s2 cacks Ec) as (Hl & Hi & Hm & Hh & Hq & Hout).
  split; [apply (commit_qinv s1 s2 cacks HQ1 Ec)|]. split; [rewrite Hl; reflexivity|].
  intros a Ha. unfold batch_ack_ok. apply in_app_or in Ha. destruct Ha as [Ha|Ha].
  - apply filter_In in Ha. destruct Ha as [Hin Hp]. destruct (batch_ack_stored _ _ _ Hin) as (H1 & H2 & H3). rewrite H1.
    destruct (ak_policy a); try discriminate. split; [rewrite Hl; exact H2|exact H3].
  - destruct (Hout a Ha) as (Hq' & Hp & Hmin & Hall & Hhw). destruct (HQ1 a Hq') as [H1 H2]. rewrite H1, Hp.
    split; [rewrite Hl; exact H2|]. rewrite Hi, Hm. split; [exact Hmin|split; assumption].
Qed.

Lemma store_batch_spec s ms s' out : QInv s -> store_batch s ms = (s', out) ->
  QInv s' /\ (exists st, l_log s' = l_log s ++ st /\ (st = [] \/ st = ms)) /\ forall a, In a out -> batch_ack_ok s s' a.
Proof.
  intros HQ H. unfold store_batch in H. destruct ms as [|first rest]; [injection H as <- <-; split; [exact HQ|split; [exists []; rewrite app_nil_r; auto|intros a []]]|].
  destruct (l_cc s && negb (pm_expected first =? -1) && negb (pm_expected first =? newest s + 1)).
  - injection H as <- <-. split; [exact HQ|]. split; [exists []; rewrite app_nil_r; auto|]. intros a [<-|[]]. cbn. reflexivity.
  - destruct (store_ok_spec s (first :: rest) s' out HQ H) as (H1 & H2 & H3). split; [exact H1|]. split; [exists (first :: rest); auto|exact H3].
Qed.

(* ---- every step ---- *)
Definition ack_meaning (s s' : lstate) (a : ack) : Prop :=
  match ak_kind a with
  | AOk =>
    match ak_policy a with
    | PLeader => stored_now s s' a
    | PAll => names_stored (l_log s') a /\ (l_min_isr s' <= length (l_isr s'))%nat /\ (forall r o, In (r, o) (l_isr s') -> ak_offset a <= o) /\ ak_offset a <= l_hw s'
    | PNone => False
    end
  | _ => True
  end.

(* what a later batch of the same step leaves in place: the log grows, the ISR keeps its members
   and their offsets do not go back, the HW does not go back *)
Definition later (s1 s2 : lstate) : Prop :=
  (exists st, l_log s2 = l_log s1 ++ st) /\ l_min_isr s2 = l_min_isr s1 /\ length (l_isr s2) = length (l_isr s1) /\
  (forall r o, In (r, o) (l_isr s2) -> exists o', In (r, o') (l_isr s1) /\ o' <= o) /\ l_hw s1 <= l_hw s2.

Lemma set_offset_later r o isr : length (set_offset r o isr) = length isr /\
  forall r' o', In (r', o') (set_offset r o isr) -> exists o0, In (r', o0) isr /\ o0 <= o'.
Proof.
  induction isr as [|[r0 o0] t [IH1 IH2]]; [split; [reflexivity|intros ? ? []]|]. cbn [set_offset]. destruct (N.eqb r0 r).
  - split; [reflexivity|]. intros r' o' [[= <- <-]|H]; [exists o0; split; [left; reflexivity|lia]|exists o'; split; [right; exact H|lia]].
  - split; [cbn [length]; rewrite IH1; reflexivity|]. intros r' o' [[= <- <-]|H]; [exists o0; split; [left; reflexivity|lia]|].
    destruct (IH2 r' o' H) as (o1 & H1 & H2). exists o1. split; [right; exact H1|exact H2].
Qed.

Lemma store_batch_later s ms s' out : store_batch s ms = (s', out) -> later s s'.
Proof.
  assert (Hrefl : later s s) by (split; [exists []; rewrite app_nil_r; reflexivity|split; [reflexivity|split; [reflexivity|split; [intros r o H; exists o; split; [exact H|lia]|lia]]]]).
  unfold store_batch. destruct ms as [|first rest]; [intros [= <- <-]; exact Hrefl|].
  destruct (l_cc s && negb (pm_expected first =? -1) && negb (pm_expected first =? newest s + 1)); [intros [= <- <-]; exact Hrefl|].
  unfold store_ok. match goal with |- (let '(s2, cacks) := commit ?S1 in _) = _ -> _ => set (s1 := S1) end.
  destruct (commit s1) as [s2 cacks] eqn:Ec. intros [= <- <-]. destruct (commit_spec s1 s2 cacks Ec) as (Hl & Hi & Hm & Hh & _ & _).
  destruct (set_offset_later 0%N (newest s + 1 + Z.of_nat (length (first :: rest)) - 1) (l_isr s)) as [L1 L2].
  split; [exists (first :: rest); rewrite Hl; reflexivity|]. split; [rewrite Hm; reflexivity|]. split; [rewrite Hi; exact L1|].
  split; [rewrite Hi; exact L2|]. unfold s1 in Hh. cbn [l_hw] in Hh. destruct (rf1 s && _) in Hh; lia.
Qed.

Lemma ack_meaning_later s0 s1 s2 a : ack_meaning s0 s1 a -> later s1 s2 -> ack_meaning s0 s2 a.
Proof.
  unfold ack_meaning. intros H ((st & Hl) & Hm & Hlen & Hisr & Hhw). destruct (ak_kind a); [|exact I..]. destruct (ak_policy a).
  - destruct H as [H1 H2]. split; [rewrite Hl; apply names_stored_grow; exact H1|exact H2].
  - destruct H as (H1 & H2 & H3 & H4). split; [rewrite Hl; apply names_stored_grow; exact H1|]. split; [rewrite Hm, Hlen; exact H2|]. split; [|lia].
    intros r o Hin. destruct (Hisr r o Hin) as (o' & Hin' & Hle). specialize (H3 r o' Hin'). lia.
  - exact H.
Qed.

Lemma later_trans s1 s2 s3 : later s1 s2 -> later s2 s3 -> later s1 s3.
Proof.
  intros ((st1 & L1) & M1 & N1 & I1 & H1) ((st2 & L2) & M2 & N2 & I2 & H2).
  split; [exists (st1 ++ st2); rewrite L2, L1, app_assoc; reflexivity|]. split; [congruence|]. split; [congruence|]. split; [|lia].
  intros r o Hin. destruct (I2 r o Hin) as (o1 & Hin1 & Hle1). destruct (I1 r o1 Hin1) as (o0 & Hin0 & Hle0). exists o0. split; [exact Hin0|lia].
Qed.

Lemma ack_meaning_start s0 s1 s2 a : later s0 s1 -> ack_meaning s1 s2 a -> ack_meaning s0 s2 a.
Proof.
  unfold ack_meaning. intros ((st & Hl) & _) H. destruct (ak_kind a); [|exact I..]. destruct (ak_policy a); [|exact H|exact H].
  destruct H as [H1 H2]. split; [exact H1|]. rewrite Hl, app_length in H2. lia.
Qed.

Lemma store_each_spec ms : forall s s' out, QInv s -> store_each s ms = (s', out) ->
  QInv s' /\ later s s' /\ (exists st, l_log s' = l_log s ++ st /\ forall m, In m st -> In m ms) /\ forall a, In a out -> ack_meaning s s' a.
Proof.
  induction ms as [|m r IH]; intros s s' out HQ H; cbn [store_each] in H.
  - injection H as <- <-. split; [exact HQ|]. split; [split; [exists []; rewrite app_nil_r; reflexivity|split; [reflexivity|split; [reflexivity|split; [intros r o H; exists o; split; [exact H|lia]|lia]]]]|].
    split; [exists []; rewrite app_nil_r; split; [reflexivity|intros ? []]|intros a []].
  - destruct (store_batch s [m]) as [s1 a1] eqn:E1. destruct (store_each s1 r) as [s2 a2] eqn:E2. injection H as <- <-.
    destruct (store_batch_spec s [m] s1 a1 HQ E1) as (HQ1 & (st1 & Hst1 & Hor) & Hacks1). pose proof (store_batch_later s [m] s1 a1 E1) as L1.
    destruct (IH s1 s2 a2 HQ1 E2) as (HQ2 & L2 & (st2 & Hst2 & Hin2) & Hacks2).
    split; [exact HQ2|]. split; [apply (later_trans s s1 s2 L1 L2)|]. split.
    + exists (st1 ++ st2). split; [rewrite Hst2, Hst1, app_assoc; reflexivity|]. intros x Hx. apply in_app_or in Hx. destruct Hx as [Hx|Hx].
      * destruct Hor as [->| ->]; [destruct Hx|destruct Hx as [<-|[]]; left; reflexivity].
      * right. apply Hin2. exact Hx.
    + intros a Ha. apply in_app_or in Ha. destruct Ha as [Ha|Ha].
      * apply (ack_meaning_later s s1 s2 a); [|exact L2]. specialize (Hacks1 a Ha). unfold ack_meaning, batch_ack_ok in *. destruct (ak_kind a); [exact Hacks1|exact I..].
      * apply (ack_meaning_start s s1 s2 a L1). apply Hacks2. exact Ha.
Qed.

Definition is_regain (x : lstep) : bool := match x with LRegain _ _ _ => true | _ => false end.

Lemma publish_step_acks s ms s' out : QInv s -> publish_step s ms = (s', out) ->
  QInv s' /\ (exists st, l_log s' = l_log s ++ st) /\ forall a, In a out -> ack_meaning s s' a.
Proof.
  intros HQ H. unfold publish_step in H.
  set (sealed := filter (fun m => negb (pm_seal_fails m)) ms) in *. set (good := filter (fun m => negb (pm_too_large m)) sealed) in *.
  assert (Hn : forall (k : ackkind) (l : list pmsg) a, k <> AOk -> In a (map (fun m => mkAck (pm_corr m) (pm_policy m) 0 k) l) -> ack_meaning s s' a).
  { intros k l a Hk Ha. apply in_map_iff in Ha. destruct Ha as (m & <- & _). unfold ack_meaning. cbn [ak_kind]. destruct k; [contradiction|exact I..]. }
  destruct (l_cc s).
  + destruct (store_each s good) as [s1 acks] eqn:Es. injection H as <- <-.
    destruct (store_each_spec good s s1 acks HQ Es) as (HQ1 & _ & (st & Hst & _) & Hacks). split; [exact HQ1|]. split; [exists st; exact Hst|].
    intros a Ha. apply in_app_or in Ha. destruct Ha as [Ha|Ha]; [eapply (Hn AEncryption); [discriminate|exact Ha]|].
    apply in_app_or in Ha. destruct Ha as [Ha|Ha]; [eapply (Hn ATooLarge); [discriminate|exact Ha]|apply Hacks; exact Ha].
  + destruct (store_batch s good) as [s1 acks] eqn:Es. injection H as <- <-.
    destruct (store_batch_spec s _ s1 acks HQ Es) as (HQ1 & (st & Hst & _) & Hacks). split; [exact HQ1|]. split; [exists st; exact Hst|].
    intros a Ha. apply in_app_or in Ha. destruct Ha as [Ha|Ha]; [eapply (Hn AEncryption); [discriminate|exact Ha]|].
    apply in_app_or in Ha. destruct Ha as [Ha|Ha]; [eapply (Hn ATooLarge); [discriminate|exact Ha]|].
    specialize (Hacks a Ha). unfold ack_meaning, batch_ack_ok in *. destruct (ak_kind a); [exact Hacks|exact I..].
Qed.

Theorem step_acks s x s' out : QInv s -> step s x = (s', out) ->
  QInv s' /\ (is_regain x = false -> exists st, l_log s' = l_log s ++ st) /\ forall a, In a out -> ack_meaning s s' a.
Proof.
  intros HQ H. destruct x as [ms|r o|r|r|keep foreign hw|ms]; cbn [step] in H; cbn [is_regain];
    [| | | |injection H as <- <-; split; [intros a []|split; [discriminate|intros a []]]|];
    cut (QInv s' /\ (exists st, l_log s' = l_log s ++ st) /\ forall a, In a out -> ack_meaning s s' a);
    try (intros (C1 & C2 & C3); split; [exact C1|split; [intros _; exact C2|exact C3]]).
  - apply (publish_step_acks s ms s' out HQ H).
  - destruct (existsb (N.eqb r) (l_replicas s) && negb (N.eqb r 0)); [|injection H as <- <-; split; [exact HQ|split; [exists []; rewrite app_nil_r; reflexivity|intros a []]]].
    match type of H with commit ?S1 = _ => set (s1 := S1) in * end. assert (HQ1 : QInv s1) by exact HQ.
    destruct (commit_spec s1 s' out H) as (Hl & Hi & Hm & Hh & Hq & Hout). split; [apply (commit_qinv s1 s' out HQ1 H)|]. split; [exists []; rewrite app_nil_r; exact Hl|].
    intros a Ha. destruct (Hout a Ha) as (Hq' & Hp & Hmin & Hall & Hhw). destruct (HQ1 a Hq') as [H1 H2]. unfold ack_meaning. rewrite H1, Hp, Hl, Hi, Hm. split; [exact H2|split; [exact Hmin|split; [exact Hall|exact Hhw]]].
  - match type of H with commit ?S1 = _ => set (s1 := S1) in * end. assert (HQ1 : QInv s1) by exact HQ.
    destruct (commit_spec s1 s' out H) as (Hl & Hi & Hm & Hh & Hq & Hout). split; [apply (commit_qinv s1 s' out HQ1 H)|]. split; [exists []; rewrite app_nil_r; exact Hl|].
    intros a Ha. destruct (Hout a Ha) as (Hq' & Hp & Hmin & Hall & Hhw). destruct (HQ1 a Hq') as [H1 H2]. unfold ack_meaning. rewrite H1, Hp, Hl, Hi, Hm. split; [exact H2|split; [exact Hmin|split; [exact Hall|exact Hhw]]].
  - destruct (existsb (N.eqb r) (map fst (l_isr s))); injection H as <- <-; (split; [exact HQ|split; [exists []; rewrite app_nil_r; reflexivity|intros a []]]).
  - destruct (publish_step s (filter (fun m => negb (api_refuses s m)) ms)) as [s1 o1] eqn:Ep. injection H as <- <-.
    destruct (publish_step_acks s _ s1 o1 HQ Ep) as (C1 & C2 & C3). split; [exact C1|]. split; [exact C2|].
    intros a Ha. apply in_app_or in Ha. destruct Ha as [Ha|Ha]; [|apply C3; exact Ha].
    apply in_map_iff in Ha. destruct Ha as (m & <- & _). exact I.
Qed.

(* rejected messages are not stored: what a publish step appends are messages of the batch that
   are not too large; and a batch refused for its expected offset leaves the log as it is (with
   concurrency control every message is its own batch) *)
Theorem step_stores_only_accepted s ms s' out : QInv s -> step s (LPublish ms) = (s', out) ->
  exists st, l_log s' = l_log s ++ st /\ forall m, In m st -> In m ms /\ pm_too_large m = false /\ pm_seal_fails m = false.
Proof.
  intros HQ. cbn [step]. unfold publish_step. set (sealed := filter (fun m => negb (pm_seal_fails m)) ms). set (good := filter (fun m => negb (pm_too_large m)) sealed).
  assert (Hgood : forall m, In m good -> In m ms /\ pm_too_large m = false /\ pm_seal_fails m = false).
  { intros m Hm. apply filter_In in Hm. destruct Hm as [H1 H2]. apply filter_In in H1. destruct H1 as [H0 H1]. split; [exact H0|].
    split; [destruct (pm_too_large m); [discriminate|reflexivity]|destruct (pm_seal_fails m); [discriminate|reflexivity]]. }
  destruct (l_cc s).
  - destruct (store_each s good) as [s1 acks] eqn:Es. intros [= <- <-].
    destruct (store_each_spec good s s1 acks HQ Es) as (_ & _ & (st & Hst & Hin) & _). exists st. split; [exact Hst|]. intros m Hm. apply Hgood. apply Hin. exact Hm.
  - destruct (store_batch s good) as [s1 acks] eqn:Es. intros [= <- <-].
    destruct (store_batch_spec s _ s1 acks HQ Es) as (_ & (st & Hst & Hor) & _). exists st. split; [exact Hst|]. intros m Hm. apply Hgood.
    destruct Hor as [->| ->]; [destruct Hm|exact Hm].
Qed.

(* every refused message is told so: a publish step answers each message whose value cannot be
   sealed with an encryption error and each too-large one with a too-large error *)
Theorem refused_messages_are_nacked s ms s' out m : step s (LPublish ms) = (s', out) -> In m ms ->
  (pm_seal_fails m = true -> In (mkAck (pm_corr m) (pm_policy m) 0 AEncryption) out) /\
  (pm_seal_fails m = false -> pm_too_large m = true -> In (mkAck (pm_corr m) (pm_policy m) 0 ATooLarge) out).
Proof.
  cbn [step]. unfold publish_step. set (sealed := filter (fun m => negb (pm_seal_fails m)) ms). set (good := filter (fun m => negb (pm_too_large m)) sealed).
  destruct (if l_cc s then store_each s good else store_batch s good) as [s1 acks]. intros [= <- <-] Hin. split.
  - intros Hs. apply in_or_app. left. apply in_map_iff. exists m. split; [reflexivity|]. apply filter_In. split; assumption.
  - intros Hs Hl. apply in_or_app. right. apply in_or_app. left. apply in_map_iff. exists m. split; [reflexivity|].
    apply filter_In. split; [|exact Hl]. apply filter_In. split; [exact Hin|rewrite Hs; reflexivity].
Qed.

Theorem refused_batch_not_stored s ms s' out a : QInv s -> store_batch s ms = (s', out) -> In a out -> ak_kind a = AIncorrectOffset -> l_log s' = l_log s.
Proof.
  intros HQ H Ha Hk. destruct (store_batch_spec s ms s' out HQ H) as (_ & _ & Hacks). specialize (Hacks a Ha). unfold batch_ack_ok in Hacks. rewrite Hk in Hacks. exact Hacks.
Qed.

(* ---- whole histories ---- *)
Lemma qinv_init replicas min_isr cc : QInv (init_state replicas min_isr cc).
Proof. intros a []. Qed.

Fixpoint all_steps_ok (s : lstate) (xs : list lstep) : Prop :=
  match xs with
  | [] => True
  | x :: r => let '(s', out) := step s x in (forall a, In a out -> ack_meaning s s' a) /\ all_steps_ok s' r
  end.

Theorem every_ack_means_its_policy xs : forall s, QInv s -> all_steps_ok s xs.
Proof.
  induction xs as [|x r IH]; intros s HQ; cbn [all_steps_ok]; [exact I|]. destruct (step s x) as [s' out] eqn:E.
  destruct (step_acks s x s' out HQ E) as (HQ' & _ & Hm). split; [exact Hm|apply IH; exact HQ'].
Qed.

(* what is stored stays stored: later steps only append *)
Theorem log_only_grows xs : forall s s' acks, QInv s -> forallb (fun x => negb (is_regain x)) xs = true ->
  run s xs = (s', acks) -> exists st, l_log s' = l_log s ++ st.
Proof.
  induction xs as [|x r IH]; intros s s' acks HQ Hn H; cbn [run] in H; [injection H as <- <-; exists []; rewrite app_nil_r; reflexivity|].
  cbn [forallb] in Hn. apply andb_prop in Hn. destruct Hn as [Hx Hr].
  destruct (step s x) as [s1 a1] eqn:E1. destruct (run s1 r) as [s2 a2] eqn:E2. injection H as <- <-.
  destruct (step_acks s x s1 a1 HQ E1) as (HQ1 & H1 & _). destruct H1 as (st1 & H1); [destruct (is_regain x); [discriminate|reflexivity]|].
  destruct (IH s1 s2 a2 HQ1 Hr E2) as (st2 & H2).
  exists (st1 ++ st2). rewrite H2, H1, app_assoc. reflexivity.
Qed.

(* a new leader term: nothing is acknowledged by the change itself, no ack stays pending, and what
   was committed (at or below the HW) is still there when the log was cut back no further than that *)
Lemma nth_error_firstn_lt {A} (n : nat) : forall (l : list A) i, (i < n)%nat -> nth_error (firstn n l) i = nth_error l i.
Proof.
  induction n as [|n IH]; intros l i Hi; [lia|]. destruct l as [|y t]; [reflexivity|]. destruct i as [|i]; [reflexivity|]. cbn [firstn nth_error]. apply IH. lia.
Qed.

Theorem regain_keeps_committed s keep foreign hw s' out : step s (LRegain keep foreign hw) = (s', out) ->
  out = [] /\ l_queue s' = [] /\ l_hw s <= l_hw s' /\
  (l_hw s <= keep -> forall i m, Z.of_nat i <= l_hw s -> nth_error (l_log s) i = Some m -> nth_error (l_log s') i = Some m).
Proof.
  cbn [step]. intros [= <- <-]. cbn [l_queue l_hw l_log]. split; [reflexivity|]. split; [reflexivity|]. split; [lia|].
  intros Hk i m Hi Hm. assert (Hlt : (i < length (l_log s))%nat) by (apply nth_error_Some; congruence).
  rewrite nth_error_app1 by (rewrite firstn_length; lia). rewrite nth_error_firstn_lt by lia. exact Hm.
Qed.

