(* C04: an ALL-policy acknowledgement rests on what the in-sync replicas reported in the current
   leader term -- not on anything the leader remembers from a term it led before. *)
From LB Require Import Base.Prelude Repl.Acks Repl.AcksProofs.
From Coq Require Import ZifyBool.
Open Scope Z_scope.

Lemma told_ge g r : -1 <= told g r.
Proof. induction g as [|[r0 o0] g IH]; cbn [told fold_right fst snd]; [lia|]. fold (told g r). destruct (N.eqb r0 r); lia. Qed.

Lemma told_cons r0 o0 g r : told ((r0, o0) :: g) r = if N.eqb r0 r then Z.max (told g r) o0 else told g r.
Proof. reflexivity. Qed.

(* the leader's belief about every other replica is covered by that replica's own reports *)
Definition Believes (s : lstate) (g : reports) : Prop :=
  forall r o, In (r, o) (l_isr s) -> r <> 0%N -> o <= told g r.

(* the entries of the other replicas are entries that were there before *)
Definition others_kept (s s' : lstate) : Prop := forall r o, In (r, o) (l_isr s') -> r <> 0%N -> In (r, o) (l_isr s).

Lemma set_offset_in r0 o0 isr r o : In (r, o) (set_offset r0 o0 isr) ->
  In (r, o) isr \/ (r = r0 /\ exists o', In (r, o') isr /\ o = Z.max o' o0).
Proof.
  induction isr as [|[r1 o1] t IH]; [intros []|]. cbn [set_offset]. destruct (N.eqb_spec r1 r0) as [->|Hne].
  - intros [[= <- <-]|H]; [right; split; [reflexivity|exists o1; split; [left; reflexivity|reflexivity]]|left; right; exact H].
  - intros [[= <- <-]|H]; [left; left; reflexivity|]. destruct (IH H) as [H1|(H1 & o' & H2 & H3)]; [left; right; exact H1|].
    right. split; [exact H1|exists o'; split; [right; exact H2|exact H3]].
Qed.

Lemma commit_others s s' out : commit s = (s', out) -> others_kept s s'.
Proof. intros H r o Hin _. destruct (commit_spec s s' out H) as (_ & Hi & _). rewrite <- Hi. exact Hin. Qed.

Lemma store_ok_others s ms s' out : store_ok s ms = (s', out) -> others_kept s s'.
Proof.
  unfold store_ok. match goal with |- (let '(s2, cacks) := commit ?S1 in _) = _ -> _ => set (s1 := S1) end.
  destruct (commit s1) as [s2 cacks] eqn:Ec. intros [= <- <-] r o Hin Hr. pose proof (commit_others s1 s2 cacks Ec r o Hin Hr) as H1.
  unfold s1 in H1. cbn [l_isr] in H1. destruct (set_offset_in _ _ _ _ _ H1) as [H2|(H2 & _)]; [exact H2|contradiction].
Qed.

Lemma store_batch_others s ms s' out : store_batch s ms = (s', out) -> others_kept s s'.
Proof.
  unfold store_batch. destruct ms as [|first rest]; [intros [= <- <-] r o H _; exact H|].
  destruct (l_cc s && negb (pm_expected first =? -1) && negb (pm_expected first =? newest s + 1)); [intros [= <- <-] r o H _; exact H|].
  apply store_ok_others.
Qed.

Lemma store_each_others ms : forall s s' out, store_each s ms = (s', out) -> others_kept s s'.
Proof.
  induction ms as [|m t IH]; intros s s' out H; cbn [store_each] in H; [injection H as <- <-; intros r o Hin _; exact Hin|].
  destruct (store_batch s [m]) as [s1 a1] eqn:E1. destruct (store_each s1 t) as [s2 a2] eqn:E2. injection H as <- <-.
  intros r o Hin Hr. apply (store_batch_others s [m] s1 a1 E1 r o); [|exact Hr]. apply (IH s1 s2 a2 E2 r o Hin Hr).
Qed.

Lemma publish_step_others s ms s' out : publish_step s ms = (s', out) -> others_kept s s'.
Proof.
  unfold publish_step. intros H. destruct (l_cc s).
  + destruct (store_each s _) as [s1 acks] eqn:Es. injection H as <- <-. apply (store_each_others _ _ _ _ Es).
  + destruct (store_batch s _) as [s1 acks] eqn:Es. injection H as <- <-. apply (store_batch_others _ _ _ _ Es).
Qed.

Theorem step_believes s g x s' out : Believes s g -> step s x = (s', out) -> Believes s' (gstep g x).
Proof.
  intros HB H. destruct x as [ms|r0 o0|r0|r0|keep foreign hw|ms]; cbn [step gstep] in *.
  - pose proof (publish_step_others s ms s' out H) as K.
    intros r o Hin Hr. apply HB; [apply K; assumption|exact Hr].
  - destruct (existsb (N.eqb r0) (l_replicas s) && negb (N.eqb r0 0)).
    + intros r o Hin Hr. pose proof (commit_others _ _ _ H r o Hin Hr) as H1. cbn [l_isr] in H1. rewrite told_cons.
      destruct (set_offset_in _ _ _ _ _ H1) as [H2|(-> & o' & H2 & ->)].
      * specialize (HB r o H2 Hr). destruct (N.eqb r0 r); lia.
      * specialize (HB r0 o' H2 Hr). rewrite N.eqb_refl. lia.
    + injection H as <- <-. intros r o Hin Hr. specialize (HB r o Hin Hr). rewrite told_cons. destruct (N.eqb r0 r); lia.
  - intros r o Hin Hr. pose proof (commit_others _ _ _ H r o Hin Hr) as H1. cbn [l_isr] in H1. apply filter_In in H1. apply HB; [apply H1|exact Hr].
  - destruct (existsb (N.eqb r0) (map fst (l_isr s))); injection H as <- <-; [exact HB|].
    intros r o Hin Hr. cbn [l_isr] in Hin. apply in_app_or in Hin. destruct Hin as [Hin|[[= <- <-]|[]]]; [apply HB; assumption|apply told_ge].
  - injection H as <- <-. intros r o Hin Hr. cbn [l_isr] in Hin. apply in_map_iff in Hin. destruct Hin as ([r1 o1] & [= <- <-] & _). cbn [fst].
    destruct (N.eqb_spec r1 0) as [->|_]; [contradiction|]. cbn [told fold_right]. lia.
  - destruct (publish_step s (filter (fun m => negb (api_refuses s m)) ms)) as [s1 o1] eqn:Ep. injection H as <- <-.
    pose proof (publish_step_others s _ s1 o1 Ep) as K. intros r o Hin Hr. apply HB; [apply K; assumption|exact Hr].
Qed.

(* an ALL-policy acknowledgement: every in-sync replica other than the leader has itself
   reported, in this term, an offset at or beyond the message's *)
Definition all_ack_told (s' : lstate) (g' : reports) (a : ack) : Prop :=
  ak_kind a = AOk -> ak_policy a = PAll -> forall r o, In (r, o) (l_isr s') -> r <> 0%N -> ak_offset a <= told g' r.

Theorem step_all_ack_told s g x s' out : QInv s -> Believes s g -> step s x = (s', out) ->
  forall a, In a out -> all_ack_told s' (gstep g x) a.
Proof.
  intros HQ HB H a Ha Hk Hp r o Hin Hr. destruct (step_acks s x s' out HQ H) as (_ & _ & Hm). specialize (Hm a Ha).
  unfold ack_meaning in Hm. rewrite Hk, Hp in Hm. destruct Hm as (_ & _ & Hall & _).
  pose proof (step_believes s g x s' out HB H r o Hin Hr). specialize (Hall r o Hin). lia.
Qed.

Fixpoint all_told_ok (s : lstate) (g : reports) (xs : list lstep) : Prop :=
  match xs with
  | [] => True
  | x :: r => let '(s', out) := step s x in (forall a, In a out -> all_ack_told s' (gstep g x) a) /\ all_told_ok s' (gstep g x) r
  end.

Theorem every_all_ack_rests_on_this_terms_reports xs : forall s g, QInv s -> Believes s g -> all_told_ok s g xs.
Proof.
  induction xs as [|x r IH]; intros s g HQ HB; cbn [all_told_ok]; [exact I|]. destruct (step s x) as [s' out] eqn:E. split.
  - apply (step_all_ack_told s g x s' out HQ HB E).
  - apply IH; [apply (step_acks s x s' out HQ E)|apply (step_believes s g x s' out HB E)].
Qed.

Lemma believes_init replicas min_isr cc : Believes (init_state replicas min_isr cc) [].
Proof.
  intros r o Hin _. unfold init_state in Hin. cbn [l_isr] in Hin. apply in_map_iff in Hin. destruct Hin as (r1 & [= <- <-] & _). cbn. lia.
Qed.

(* right after the change nobody but the leader counts for anything yet *)
Theorem regain_forgets_reports s keep foreign hw s' out : step s (LRegain keep foreign hw) = (s', out) ->
  forall r o, In (r, o) (l_isr s') -> r <> 0%N -> o = -1.
Proof.
  cbn [step]. intros [= <- <-] r o Hin Hr. cbn [l_isr] in Hin. apply in_map_iff in Hin. destruct Hin as ([r1 o1] & [= <- <-] & _). cbn [fst].
  destruct (N.eqb_spec r1 0) as [->|_]; [contradiction|reflexivity].
Qed.
