(* C02 model: a partition's replicas, leader elections, follower reconciliation and fetch, the
   leader's commit rule and ISR changes (server/partition.go becomeLeader, becomeFollower,
   truncateUncommitted, handleLeaderOffsetRequest, replicationRequestLoop /
   handleReplicationResponse, commitLoop, RemoveFromISR / AddToISR; metadata.go ChangeLeader).

   Abstraction: each step is atomic; a follower reconciles against the current leader's log; the
   leader-epoch-offset answer is the last offset whose entry has an epoch not above the requested
   one (Repl.EpochCache proves that the epoch cache computes exactly this); the HW-truncation
   fallback (leader unreachable) is the extra step of Repl.Fallback; a leader that restarts
   without reconciling is outside the model.

   Variant switch v_reset (true = repaired code): a newly elected leader forgets the follower
   offsets it had recorded in an earlier term. *)
From LB Require Import Base.Prelude Meta.Fsm.
Open Scope Z_scope.

Definition entry := (N * N)%type.     (* leader epoch, message id *)
Definition ep (e : entry) : N := fst e.

Record cluster := mkCl {
  c_logs : list (N * list entry);
  c_hws : list (N * Z);
  c_leader : N;
  c_epoch : N;
  c_isr : list N;
  c_view : list (N * Z);       (* the leader's record of each in-sync replica's latest offset *)
  c_synced : list N;           (* replicas that have reconciled with the current leader (and the leader) *)
  c_min_isr : nat;
  c_committed : list entry     (* ghost: the longest prefix ever committed *)
}.

Definition log_of (c : cluster) (r : N) : list entry := match alookup r (c_logs c) with Some l => l | None => [] end.
Definition hw_of (c : cluster) (r : N) : Z := match alookup r (c_hws c) with Some h => h | None => -1 end.
Definition view_of (c : cluster) (r : N) : Z := match alookup r (c_view c) with Some o => o | None => -1 end.
Definition newest_of (c : cluster) (r : N) : Z := Z.of_nat (length (log_of c r)) - 1.
Definition mem (r : N) (l : list N) : bool := existsb (N.eqb r) l.

Definition last_epoch (l : list entry) : N := match rev l with e :: _ => ep e | [] => 0%N end.

(* the last offset whose entry has an epoch <= q; -1 if there is none *)
Fixpoint last_le_from (q : N) (l : list entry) (pos : Z) (acc : Z) : Z :=
  match l with
  | [] => acc
  | e :: r => last_le_from q r (pos + 1) (if (ep e <=? q)%N then pos else acc)
  end.
Definition last_le (q : N) (l : list entry) : Z := last_le_from q l 0 (-1).

Definition min_view (c : cluster) : Z :=
  match c_isr c with
  | [] => -1
  | r :: t => fold_left (fun m x => Z.min m (view_of c x)) t (view_of c r)
  end.

(* commitLoop: nothing below the minimum ISR size; else the leader's HW moves to the smallest
   recorded offset in the ISR *)
Definition commit (c : cluster) : cluster :=
  if Nat.ltb (length (c_isr c)) (c_min_isr c) then c
  else
    let m := min_view c in
    let L := c_leader c in
    if m <=? hw_of c L then c
    else mkCl (c_logs c) (aset L m (c_hws c)) L (c_epoch c) (c_isr c) (c_view c) (c_synced c) (c_min_isr c)
              (if Z.of_nat (length (c_committed c)) <=? m then firstn (Z.to_nat (m + 1)) (log_of c L) else c_committed c).

Inductive kstep :=
| KPublish (v : N)                  (* the leader stores a message *)
| KFetch (r : N) (n : nat)          (* reconciled follower r fetches: reports its offset, receives up to n entries and the leader's HW *)
| KElect (r : N) (e : N)            (* r, in the ISR and reconciled, becomes leader of the new epoch e *)
| KReconcile (r : N)                (* r learns of the current leader: asks where its last epoch ends, truncates *)
| KShrink (r : N)
| KExpand (r : N).                  (* a reconciled, caught-up replica is added to the ISR *)

Definition set_log (c : cluster) (r : N) (l : list entry) : cluster :=
  mkCl (aset r l (c_logs c)) (c_hws c) (c_leader c) (c_epoch c) (c_isr c) (c_view c) (c_synced c) (c_min_isr c) (c_committed c).
Definition set_view (c : cluster) (r : N) (o : Z) : cluster :=
  mkCl (c_logs c) (c_hws c) (c_leader c) (c_epoch c) (c_isr c) (aset r o (c_view c)) (c_synced c) (c_min_isr c) (c_committed c).

Definition step (v_reset : bool) (c : cluster) (x : kstep) : option cluster :=
  let L := c_leader c in
  match x with
  | KPublish v =>
    let c1 := set_log c L (log_of c L ++ [(c_epoch c, v)]) in
    Some (commit (set_view c1 L (newest_of c1 L)))
  | KFetch r n =>
    if mem r (c_synced c) && negb (N.eqb r L) then
      (* the request carries r's log end; the leader records it (ISR members only) and may commit *)
      let c1 := if mem r (c_isr c) then commit (set_view c r (Z.max (view_of c r) (newest_of c r))) else c in
      let have := length (log_of c r) in
      let data := firstn n (skipn have (log_of c L)) in
      let c2 := set_log c1 r (log_of c r ++ data) in
      Some (mkCl (c_logs c2) (aset r (Z.max (hw_of c2 r) (hw_of c2 L)) (c_hws c2)) L (c_epoch c2) (c_isr c2) (c_view c2) (c_synced c2) (c_min_isr c2) (c_committed c2))
    else None
  | KElect r e =>
    if mem r (c_isr c) && mem r (c_synced c) && negb (N.eqb r L) && (c_epoch c <? e)%N then
      let view := if v_reset then map (fun x => (x, if N.eqb x r then newest_of c r else -1)) (c_isr c)
                  else aset r (Z.max (view_of c r) (newest_of c r)) (c_view c) in
      Some (mkCl (c_logs c) (c_hws c) r e (c_isr c) view [r] (c_min_isr c) (c_committed c))
    else None
  | KReconcile r =>
    if negb (mem r (c_synced c)) then
      let ans := last_le (last_epoch (log_of c r)) (log_of c L) in
      let c1 := set_log c r (firstn (Z.to_nat (ans + 1)) (log_of c r)) in
      Some (mkCl (c_logs c1) (c_hws c1) L (c_epoch c1) (c_isr c1) (c_view c1) (r :: c_synced c1) (c_min_isr c1) (c_committed c1))
    else None
  | KShrink r =>
    if mem r (c_isr c) && negb (N.eqb r L) then
      Some (commit (mkCl (c_logs c) (c_hws c) L (c_epoch c) (filter (fun x => negb (N.eqb x r)) (c_isr c)) (c_view c) (c_synced c) (c_min_isr c) (c_committed c)))
    else None
  | KExpand r =>
    if negb (mem r (c_isr c)) && mem r (c_synced c) && (length (log_of c r) =? length (log_of c L))%nat then
      Some (mkCl (c_logs c) (c_hws c) L (c_epoch c) (c_isr c ++ [r]) (aset r (-1) (c_view c)) (c_synced c) (c_min_isr c) (c_committed c))
    else None
  end.

Definition init_cluster (replicas : list N) (leader : N) (e : N) (min_isr : nat) : cluster :=
  mkCl (map (fun r => (r, [])) replicas) (map (fun r => (r, -1)) replicas) leader e replicas
       (map (fun r => (r, -1)) replicas) replicas min_isr [].

(* steps that are not enabled are skipped *)
Fixpoint run (v_reset : bool) (c : cluster) (xs : list kstep) : cluster :=
  match xs with
  | [] => c
  | x :: r => match step v_reset c x with Some c' => run v_reset c' r | None => run v_reset c r end
  end.

(* ---- correspondence ---- *)
Record kobs := mkKObs {
  ko_leader : N; ko_epoch : N; ko_isr : list N;
  ko_logs : list (N * list entry);      (* replicas 0, 1, 2 *)
  ko_hws : list (N * Z);
  ko_view : list (N * Z)                (* the leader's record, ISR members only, by replica id *)
}.

Fixpoint leqb {A} (eq : A -> A -> bool) (a b : list A) : bool :=
  match a, b with
  | [], [] => true
  | x :: a', y :: b' => eq x y && leqb eq a' b'
  | _, _ => false
  end.

Definition entry_eqb (a b : entry) : bool := N.eqb (fst a) (fst b) && N.eqb (snd a) (snd b).

Definition kobs_ok (c : cluster) (o : kobs) : bool :=
  N.eqb (c_leader c) (ko_leader o) && N.eqb (c_epoch c) (ko_epoch o) && leqb N.eqb (c_isr c) (ko_isr o) &&
  forallb (fun rl => leqb entry_eqb (log_of c (fst rl)) (snd rl)) (ko_logs o) &&
  forallb (fun rh => hw_of c (fst rh) =? snd rh) (ko_hws o) &&
  forallb (fun rv => view_of c (fst rv) =? snd rv) (ko_view o).

Fixpoint check_cluster (c : cluster) (xs : list (kstep * kobs)) (i : nat) : option nat :=
  match xs with
  | [] => None
  | (x, o) :: r =>
    match step true c x with
    | Some c' => if kobs_ok c' o then check_cluster c' r (S i) else Some i
    | None => Some i          (* the implementation did a step the model does not allow *)
    end
  end.

Record kcase := mkKCase { kc_min_isr : nat; kc_epoch : N; kc_steps : list (kstep * kobs) }.

Fixpoint kcases_mismatches (cs : list kcase) (i : nat) : list (nat * nat) :=
  match cs with
  | [] => []
  | c :: r => match check_cluster (init_cluster [0; 1; 2]%N 0%N (kc_epoch c) (kc_min_isr c)) (kc_steps c) 0 with
              | None => kcases_mismatches r (S i)
              | Some j => (i, j) :: kcases_mismatches r (S i)
              end
  end.
