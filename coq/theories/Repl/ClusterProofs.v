(* Safety of the replication protocol model (Repl.Cluster): committed entries stay on every
   in-sync replica and on every leader, and any two replicas agree at every offset at or below
   both of their high watermarks. *)
From LB Require Import Base.Prelude Meta.Fsm Meta.FsmProofs Repl.Cluster.
From Coq Require Import ZifyBool.
Open Scope Z_scope.

(* ------------------------------------------------------------------ prefixes *)
Definition prefix {A} (a b : list A) : Prop := exists t, b = a ++ t.

Lemma prefix_refl {A} (a : list A) : prefix a a.
Proof. exists []. rewrite app_nil_r. reflexivity. Qed.

Lemma prefix_trans {A} (a b c : list A) : prefix a b -> prefix b c -> prefix a c.
Proof. intros [t1 ->] [t2 ->]. exists (t1 ++ t2). rewrite app_assoc. reflexivity. Qed.

Lemma prefix_app {A} (a t : list A) : prefix a (a ++ t).
Proof. exists t. reflexivity. Qed.

Lemma prefix_length {A} (a b : list A) : prefix a b -> (length a <= length b)%nat.
Proof. intros [t ->]. rewrite app_length. lia. Qed.

Lemma prefix_firstn {A} (a : list A) n : prefix (firstn n a) a.
Proof. exists (skipn n a). symmetry. apply firstn_skipn. Qed.

Lemma prefix_same_length {A} (a b : list A) : prefix a b -> length a = length b -> a = b.
Proof.
  intros [t ->] H. rewrite app_length in H. assert (length t = 0%nat) by lia. destruct t; [rewrite app_nil_r; reflexivity|discriminate].
Qed.

Lemma prefix_nth {A} (a b : list A) o x : prefix a b -> nth_error a o = Some x -> nth_error b o = Some x.
Proof. intros [t ->] H. rewrite nth_error_app1; [exact H|]. apply nth_error_Some. congruence. Qed.

Lemma prefix_firstn_eq {A} (a b : list A) n : prefix a b -> (n <= length a)%nat -> firstn n a = firstn n b.
Proof. intros [t ->] H. rewrite firstn_app. replace (n - length a)%nat with 0%nat by lia. cbn. rewrite app_nil_r. reflexivity. Qed.

Lemma prefix_of_firstn {A} (a b : list A) n : prefix a b -> (length a <= n)%nat -> prefix a (firstn n b).
Proof.
  intros [t ->] H. rewrite firstn_app. rewrite firstn_all2 by lia. apply prefix_app.
Qed.

(* both are prefixes of one list: one is a prefix of the other *)
Lemma prefix_comparable {A} (a b c : list A) : prefix a c -> prefix b c -> (length a <= length b)%nat -> prefix a b.
Proof.
  intros [ta Ha] [tb Hb] Hl. exists (firstn (length b - length a) ta).
  assert (E : b = firstn (length b) c) by (rewrite Hb, firstn_app, firstn_all, Nat.sub_diag; cbn; rewrite app_nil_r; reflexivity).
  rewrite E at 1. rewrite Ha, firstn_app. rewrite firstn_all2 by lia. reflexivity.
Qed.

Lemma prefix_extend {A} (a b : list A) n : prefix a b -> prefix (a ++ firstn n (skipn (length a) b)) b.
Proof.
  intros [t ->]. rewrite skipn_app, skipn_all, Nat.sub_diag. cbn. exists (skipn n t). rewrite <- app_assoc. rewrite firstn_skipn. reflexivity.
Qed.

(* ------------------------------------------------------------------ epochs along a log *)
Definition mono (l : list entry) : Prop := forall i j e1 e2, (i <= j)%nat -> nth_error l i = Some e1 -> nth_error l j = Some e2 -> (ep e1 <= ep e2)%N.

Lemma mono_prefix a b : prefix a b -> mono b -> mono a.
Proof. intros Hp Hm i j e1 e2 Hij H1 H2. apply (Hm i j); [exact Hij|apply (prefix_nth a b); assumption|apply (prefix_nth a b); assumption]. Qed.

Lemma mono_snoc l e : mono l -> (forall x, In x l -> (ep x <= ep e)%N) -> mono (l ++ [e]).
Proof.
  intros Hm Hle i j e1 e2 Hij H1 H2. destruct (lt_dec j (length l)) as [Hj|Hj].
  - rewrite nth_error_app1 in H1, H2 by lia. apply (Hm i j); assumption.
  - assert (j = length l).
    { assert (j < length (l ++ [e]))%nat by (apply nth_error_Some; congruence). rewrite app_length in H. cbn in H. lia. }
    subst j. rewrite nth_error_app2, Nat.sub_diag in H2 by lia. injection H2 as <-.
    destruct (lt_dec i (length l)) as [Hi|Hi]; [rewrite nth_error_app1 in H1 by lia; apply Hle; apply (nth_error_In _ _ H1)|].
    assert (i = length l) by lia. subst i. rewrite nth_error_app2, Nat.sub_diag in H1 by lia. injection H1 as <-. lia.
Qed.

Lemma last_epoch_snoc l e : last_epoch (l ++ [e]) = ep e.
Proof. unfold last_epoch. rewrite rev_app_distr. reflexivity. Qed.

Lemma mono_last l x : mono l -> In x l -> (ep x <= last_epoch l)%N.
Proof.
  intros Hm Hin. destruct (exists_last (l := l)) as (l' & e & ->); [intros ->; destruct Hin|].
  rewrite last_epoch_snoc. apply In_nth_error in Hin. destruct Hin as (i & Hi).
  apply (Hm i (length l')); [|exact Hi|rewrite nth_error_app2, Nat.sub_diag by lia; reflexivity].
  assert (i < length (l' ++ [e]))%nat by (apply nth_error_Some; congruence). rewrite app_length in H. cbn in H. lia.
Qed.

(* last_le on a log whose first part is <= q and whose rest is > q *)
Lemma last_le_split q pre post : (forall x, In x pre -> (ep x <= q)%N) -> (forall x, In x post -> (q < ep x)%N) ->
  last_le q (pre ++ post) = Z.of_nat (length pre) - 1.
Proof.
  intros Hpre Hpost. unfold last_le.
  assert (G1 : forall l pos acc, (forall x, In x l -> (q < ep x)%N) -> last_le_from q l pos acc = acc).
  { induction l as [|e r IH]; intros pos acc H; cbn [last_le_from]; [reflexivity|].
    destruct (N.leb_spec (ep e) q); [specialize (H e (or_introl eq_refl)); lia|apply IH; intros x Hx; apply H; right; exact Hx]. }
  assert (G2 : forall l pos acc, (forall x, In x l -> (ep x <= q)%N) -> last_le_from q (l ++ post) pos acc = if (length l =? 0)%nat then acc else pos + Z.of_nat (length l) - 1).
  { induction l as [|e r IH]; intros pos acc H; cbn [app last_le_from length Nat.eqb]; [apply G1; exact Hpost|].
    destruct (N.leb_spec (ep e) q); [|specialize (H e (or_introl eq_refl)); lia].
    rewrite IH by (intros x Hx; apply H; right; exact Hx). destruct r; cbn [length Nat.eqb]; lia. }
  rewrite G2 by exact Hpre. destruct pre; cbn [length Nat.eqb]; lia.
Qed.

Lemma last_le_from_ge q l : forall pos acc i e, nth_error l i = Some e -> (ep e <= q)%N -> pos + Z.of_nat i <= last_le_from q l pos acc.
Proof.
  assert (Hmono : forall l0 pos acc, (acc < pos) -> acc <= last_le_from q l0 pos acc).
  { induction l0 as [|e r IH]; intros pos acc H; cbn [last_le_from]; [lia|]. destruct (ep e <=? q)%N; [specialize (IH (pos + 1) pos); lia|apply IH; lia]. }
  induction l as [|e r IH]; intros pos acc i x Hn Hx; [destruct i; discriminate|]. cbn [last_le_from]. destruct i as [|i]; cbn [nth_error] in Hn.
  - injection Hn as <-. destruct (N.leb_spec (ep e) q); [|lia]. pose proof (Hmono r (pos + 1) pos ltac:(lia)). lia.
  - specialize (IH (pos + 1) (if (ep e <=? q)%N then pos else acc) i x Hn Hx). lia.
Qed.

Lemma last_le_lt_length q l : last_le q l < Z.of_nat (length l).
Proof.
  unfold last_le. assert (G : forall l pos acc, acc < pos + Z.of_nat (length l) -> last_le_from q l pos acc < pos + Z.of_nat (length l)).
  { induction l0 as [|e r IH]; intros pos acc H; cbn [last_le_from length] in *; [lia|].
    destruct (ep e <=? q)%N; [pose proof (IH (pos + 1) pos ltac:(lia))|pose proof (IH (pos + 1) acc ltac:(lia))]; lia. }
  specialize (G l 0 (-1)). lia.
Qed.

(* ------------------------------------------------------------------ reconciliation *)
(* r and L share their first k entries, and beyond them every entry of L is of a later epoch than
   every entry of r *)
Definition chain (r L : list entry) : Prop :=
  exists k, (k <= length r)%nat /\ (k <= length L)%nat /\ firstn k r = firstn k L /\
            forall e1 e2, In e1 (skipn k L) -> In e2 (skipn k r) -> (ep e2 < ep e1)%N.

Lemma chain_prefix r L : prefix r L -> chain r L.
Proof.
  intros Hp. exists (length r). split; [lia|]. split; [apply prefix_length; exact Hp|]. split; [apply prefix_firstn_eq; [exact Hp|lia]|].
  intros e1 e2 _ H2. rewrite skipn_all in H2. destruct H2.
Qed.

Lemma last_epoch_in r : r <> [] -> exists e, In e r /\ ep e = last_epoch r /\ nth_error r (length r - 1) = Some e.
Proof.
  intros Hne. destruct (exists_last Hne) as (l' & e & ->). exists e. split; [apply in_or_app; right; left; reflexivity|]. split; [rewrite last_epoch_snoc; reflexivity|].
  rewrite app_length. cbn [length]. replace (length l' + 1 - 1)%nat with (length l') by lia. rewrite nth_error_app2, Nat.sub_diag by lia. reflexivity.
Qed.

Lemma nth_error_skipn' {A} k : forall (l : list A) i, nth_error (skipn k l) i = nth_error l (k + i).
Proof. induction k as [|k IH]; intros l i; [reflexivity|]. destruct l as [|x t]; [destruct i; reflexivity|]. cbn [skipn Nat.add nth_error]. apply IH. Qed.

Lemma in_skipn_nth {A} k (l : list A) j x : (k <= j)%nat -> nth_error l j = Some x -> In x (skipn k l).
Proof. intros H Hn. apply (nth_error_In (skipn k l) (j - k)). rewrite nth_error_skipn'. replace (k + (j - k))%nat with j by lia. exact Hn. Qed.

Theorem reconcile_correct r L : chain r L -> mono r ->
  let r' := firstn (Z.to_nat (last_le (last_epoch r) L + 1)) r in
  prefix r' L /\ forall c, prefix c r -> prefix c L -> prefix c r'.
Proof.
  intros (k & Hkr & HkL & Heq & Hnewer) Hm. cbn zeta. set (q := last_epoch r).
  destruct (skipn k r) as [|t0 ts] eqn:Etail.
  - (* r has nothing beyond the common part: r is a prefix of L and nothing is cut *)
    assert (Hk : k = length r).
    { destruct (le_lt_dec (length r) k); [lia|]. assert (length (skipn k r) = (length r - k)%nat) by apply skipn_length. rewrite Etail in H. cbn in H. lia. }
    assert (Hpr : prefix r L). { rewrite <- (firstn_all r), <- Hk, Heq. apply prefix_firstn. }
    assert (Hall : firstn (Z.to_nat (last_le q L + 1)) r = r).
    { destruct (Nat.eq_dec (length r) 0) as [H0|H0]; [apply firstn_all2; lia|]. apply firstn_all2.
      destruct (last_epoch_in r) as (e & Hin & He & Hn); [intros ->; apply H0; reflexivity|].
      pose proof (prefix_nth r L _ e Hpr Hn) as HnL. pose proof (last_le_from_ge q L 0 (-1) _ e HnL ltac:(unfold q; lia)) as Hge. unfold last_le. lia. }
    rewrite Hall. split; [exact Hpr|]. intros c Hc _. exact Hc.
  - (* r goes on beyond the common part: exactly the common part is kept *)
    assert (Hq : forall x, In x (skipn k L) -> (q < ep x)%N).
    { intros x Hx. destruct (last_epoch_in r) as (e & Hin & He & Hn); [intros ->; rewrite skipn_nil in Etail; discriminate|].
      assert (Hlt : (k < length r)%nat).
      { pose proof (skipn_length k r) as Hl. rewrite Etail in Hl. cbn [length] in Hl. lia. }
      assert (H : In e (skipn k r)) by (apply (in_skipn_nth k r (length r - 1) e); [lia|exact Hn]).
      rewrite Etail in H. specialize (Hnewer x e Hx H). unfold q. lia. }
    assert (Hpre : forall x, In x (firstn k L) -> (ep x <= q)%N).
    { intros x Hx. rewrite <- Heq in Hx. apply (mono_last r x Hm). apply (In_firstn x k r Hx). }
    assert (Hans : last_le q L = Z.of_nat k - 1).
    { rewrite <- (firstn_skipn k L). rewrite (last_le_split q _ _ Hpre Hq). rewrite firstn_length. lia. }
    rewrite Hans. replace (Z.to_nat (Z.of_nat k - 1 + 1)) with k by lia. split; [rewrite Heq; apply prefix_firstn|].
    intros c Hc HcL. (* c is common to both: it cannot reach beyond k *)
    assert (Hlen : (length c <= k)%nat).
    { destruct (le_lt_dec (length c) k) as [H|H]; [exact H|exfalso].
      assert (Hkc : (k < length c)%nat) by exact H. destruct (nth_error c k) as [e|] eqn:En; [|apply nth_error_None in En; lia].
      pose proof (prefix_nth c r k e Hc En) as Hr. pose proof (prefix_nth c L k e HcL En) as HL.
      assert (I1 : In e (skipn k r)) by (apply (in_skipn_nth k r k e); [lia|exact Hr]).
      assert (I2 : In e (skipn k L)) by (apply (in_skipn_nth k L k e); [lia|exact HL]).
      rewrite Etail in I1. specialize (Hnewer e e I2 I1). lia. }
    apply prefix_of_firstn; assumption.
Qed.

(* ------------------------------------------------------------------ accessors *)
Lemma mem_in r l : mem r l = true <-> In r l.
Proof.
  unfold mem. rewrite existsb_exists. split; [intros (x & Hx & E); apply N.eqb_eq in E; subst; exact Hx|intros H; exists r; split; [exact H|apply N.eqb_refl]].
Qed.

Lemma log_set_same c r l : log_of (set_log c r l) r = l.
Proof. unfold log_of, set_log. cbn [c_logs]. rewrite alookup_aset_same. reflexivity. Qed.

Lemma log_set_other c r l r' : r' <> r -> log_of (set_log c r l) r' = log_of c r'.
Proof. intros H. unfold log_of, set_log. cbn [c_logs]. rewrite alookup_aset_other by exact H. reflexivity. Qed.

Lemma min_view_le c r : In r (c_isr c) -> min_view c <= view_of c r.
Proof.
  unfold min_view. destruct (c_isr c) as [|r0 t]; [intros []|].
  assert (G : forall (l : list N) acc, fold_left (fun m x => Z.min m (view_of c x)) l acc <= acc /\ forall x, In x l -> fold_left (fun m x => Z.min m (view_of c x)) l acc <= view_of c x).
  { intros l. induction l as [|y l IH]; intros acc; cbn [fold_left]; [split; [lia|intros x []]|]. destruct (IH (Z.min acc (view_of c y))) as [H1 H2].
    split; [lia|]. intros x [<-|Hx]; [lia|apply H2; exact Hx]. }
  intros [<-|Hin]; [apply (proj1 (G t (view_of c r0)))|apply (proj2 (G t (view_of c r0)) r Hin)].
Qed.

(* ------------------------------------------------------------------ the invariant *)
Record Inv (c : cluster) : Prop := {
  iA : forall r e, In e (log_of c r) -> (ep e <= c_epoch c)%N;
  iB : forall r, mono (log_of c r);
  iC : forall r o e, nth_error (log_of c r) o = Some e -> ep e = c_epoch c -> nth_error (log_of c (c_leader c)) o = Some e;
  iD : forall r, In r (c_synced c) -> prefix (log_of c r) (log_of c (c_leader c));
  iL : In (c_leader c) (c_synced c) /\ In (c_leader c) (c_isr c);
  iK : forall r, chain (log_of c r) (log_of c (c_leader c));
  iV : forall r, In r (c_isr c) -> 0 <= view_of c r -> In r (c_synced c) /\ view_of c r < Z.of_nat (length (log_of c r));
  iG : forall r, In r (c_isr c) -> prefix (c_committed c) (log_of c r);
  iH0 : forall r, -1 <= hw_of c r;
  iH1 : forall r, hw_of c r + 1 <= Z.of_nat (length (c_committed c));
  iH2 : forall r o e, (Z.of_nat o <= hw_of c r) -> nth_error (log_of c r) o = Some e -> nth_error (c_committed c) o = Some e
}.

Lemma hw_aset_same c r h : hw_of (mkCl (c_logs c) (aset r h (c_hws c)) (c_leader c) (c_epoch c) (c_isr c) (c_view c) (c_synced c) (c_min_isr c) (c_committed c)) r = h.
Proof. unfold hw_of. cbn [c_hws]. rewrite alookup_aset_same. reflexivity. Qed.

(* the commit rule keeps the invariant *)
Lemma commit_inv c : Inv c -> Inv (commit c).
Proof.
  intros HI. unfold commit. destruct (Nat.ltb (length (c_isr c)) (c_min_isr c)); [exact HI|].
  set (m := min_view c). set (L := c_leader c). destruct (Z.leb_spec m (hw_of c L)) as [Hle|Hgt]; [exact HI|].
  destruct HI as [HA HB HC HD [HL1 HL2] HK HV HG HH0 HH1 HH2]. fold L in HC, HD, HL1, HL2, HK.
  pose proof (HH1 L) as HhL. pose proof (HH0 L) as Hh0. assert (Hm0 : 0 <= m) by lia.
  pose proof (min_view_le c L HL2) as HmL. fold m in HmL. destruct (HV L HL2 ltac:(lia)) as [_ HvL].
  assert (Hmlen : m < Z.of_nat (length (log_of c L))) by lia.
  set (com' := if Z.of_nat (length (c_committed c)) <=? m then firstn (Z.to_nat (m + 1)) (log_of c L) else c_committed c).
  assert (HcomL : prefix (c_committed c) (log_of c L)) by (apply HG; exact HL2).
  assert (Hext : prefix (c_committed c) com').
  { unfold com'. destruct (Z.leb_spec (Z.of_nat (length (c_committed c))) m); [|apply prefix_refl]. apply prefix_of_firstn; [exact HcomL|lia]. }
  assert (Hcom'L : prefix com' (log_of c L)).
  { unfold com'. destruct (Z.leb_spec (Z.of_nat (length (c_committed c))) m); [apply prefix_firstn|exact HcomL]. }
  assert (Hlen' : m + 1 <= Z.of_nat (length com')).
  { unfold com'. destruct (Z.leb_spec (Z.of_nat (length (c_committed c))) m); [rewrite firstn_length; lia|lia]. }
  assert (Hlogs : forall r, log_of (mkCl (c_logs c) (aset L m (c_hws c)) L (c_epoch c) (c_isr c) (c_view c) (c_synced c) (c_min_isr c) com') r = log_of c r) by reflexivity.
  assert (Hhw : forall r, hw_of (mkCl (c_logs c) (aset L m (c_hws c)) L (c_epoch c) (c_isr c) (c_view c) (c_synced c) (c_min_isr c) com') r = if N.eqb L r then m else hw_of c r).
  { intros r. unfold hw_of. cbn [c_hws]. destruct (N.eqb_spec L r) as [<-|Hn]; [rewrite alookup_aset_same; reflexivity|rewrite alookup_aset_other by (intros E; apply Hn; symmetry; exact E); reflexivity]. }
  constructor; cbn [c_epoch c_leader c_synced c_isr c_committed]; try assumption; try (split; assumption).
  - (* committed entries are on every ISR member *)
    intros r Hr. rewrite Hlogs. unfold com'. destruct (Z.leb_spec (Z.of_nat (length (c_committed c))) m); [|apply HG; exact Hr].
    pose proof (min_view_le c r Hr) as Hmr. fold m in Hmr. destruct (HV r Hr ltac:(lia)) as [Hs Hv].
    pose proof (HD r Hs) as Hp. rewrite <- (prefix_firstn_eq (log_of c r) (log_of c L) _ Hp) by lia. apply prefix_firstn.
  - intros r. rewrite Hhw. destruct (N.eqb L r); [lia|apply HH0].
  - intros r. rewrite Hhw. destruct (N.eqb L r); [lia|]. specialize (HH1 r). pose proof (prefix_length _ _ Hext). lia.
  - intros r o e Ho Hn. rewrite Hlogs in Hn. rewrite Hhw in Ho. destruct (N.eqb_spec L r) as [<-|Hne].
    + (* the leader: everything up to m is in the committed prefix *)
      destruct Hcom'L as [t Ht]. rewrite Ht in Hn. rewrite nth_error_app1 in Hn by lia. exact Hn.
    + apply (prefix_nth _ _ _ _ Hext). apply (HH2 r); assumption.
Qed.

(* ------------------------------------------------------------------ steps *)
Lemma in_skipn_inv {A} k (l : list A) x : In x (skipn k l) -> exists j, (k <= j)%nat /\ nth_error l j = Some x.
Proof. intros H. apply In_nth_error in H. destruct H as (i & Hi). rewrite nth_error_skipn' in Hi. exists (k + i)%nat. split; [lia|exact Hi]. Qed.

Lemma in_firstn_in {A} k (l : list A) x : In x (firstn k l) -> In x l.
Proof. intros H. rewrite <- (firstn_skipn k l). apply in_or_app. left. exact H. Qed.

Lemma in_skipn_in {A} k (l : list A) x : In x (skipn k l) -> In x l.
Proof. intros H. rewrite <- (firstn_skipn k l). apply in_or_app. right. exact H. Qed.

(* a state described by its components relative to another one *)
Definition same_except_logs_view (c c2 : cluster) : Prop :=
  c_hws c2 = c_hws c /\ c_leader c2 = c_leader c /\ c_epoch c2 = c_epoch c /\ c_isr c2 = c_isr c /\
  c_synced c2 = c_synced c /\ c_committed c2 = c_committed c.

(* the leader appends an entry of the current epoch *)
Lemma publish_inv c c2 v : Inv c -> same_except_logs_view c c2 ->
  c_logs c2 = aset (c_leader c) (log_of c (c_leader c) ++ [(c_epoch c, v)]) (c_logs c) ->
  c_view c2 = aset (c_leader c) (Z.of_nat (length (log_of c (c_leader c)))) (c_view c) ->
  Inv c2.
Proof.
  intros [HA HB HC HD [HL1 HL2] HK HV HG HH0 HH1 HH2] (Ehw & Eld & Eep & Eisr & Esy & Eco) Elogs Eview.
  set (L := c_leader c) in *. set (E := c_epoch c) in *. set (x := (E, v)) in *.
  assert (HlogL : log_of c2 L = log_of c L ++ [x]) by (unfold log_of at 1; rewrite Elogs, alookup_aset_same; reflexivity).
  assert (Hlogo : forall r, r <> L -> log_of c2 r = log_of c r) by (intros r Hn; unfold log_of; rewrite Elogs, alookup_aset_other by exact Hn; reflexivity).
  assert (Hhw : forall r, hw_of c2 r = hw_of c r) by (intros r; unfold hw_of; rewrite Ehw; reflexivity).
  assert (Hcases : forall r, (r = L /\ log_of c2 r = log_of c L ++ [x]) \/ (r <> L /\ log_of c2 r = log_of c r)).
  { intros r. destruct (N.eq_dec r L) as [->|Hn]; [left; split; [reflexivity|exact HlogL]|right; split; [exact Hn|apply Hlogo; exact Hn]]. }
  constructor; rewrite ?Eld, ?Eep, ?Eisr, ?Esy, ?Eco; fold L E.
  - intros r e Hin. destruct (Hcases r) as [[-> Hl]|[Hn Hl]]; rewrite Hl in Hin.
    + apply in_app_or in Hin. destruct Hin as [Hin|[<-|[]]]; [apply (HA L); exact Hin|cbn; lia].
    + apply (HA r); exact Hin.
  - intros r. destruct (Hcases r) as [[-> Hl]|[Hn Hl]]; rewrite Hl; [|apply HB].
    apply mono_snoc; [apply HB|]. intros y Hy. cbn. apply (HA L). exact Hy.
  - intros r o e Hn He. rewrite HlogL. destruct (Hcases r) as [[-> Hl]|[Hne Hl]]; rewrite Hl in Hn; [exact Hn|].
    pose proof (HC r o e Hn He) as H. rewrite nth_error_app1; [exact H|]. apply nth_error_Some. congruence.
  - intros r Hr. rewrite HlogL. destruct (Hcases r) as [[-> Hl]|[Hne Hl]]; rewrite Hl; [apply prefix_refl|].
    apply (prefix_trans _ (log_of c L)); [apply HD; exact Hr|apply prefix_app].
  - split; assumption.
  - intros r. rewrite HlogL. destruct (Hcases r) as [[-> Hl]|[Hne Hl]]; rewrite Hl; [apply chain_prefix; apply prefix_refl|].
    destruct (HK r) as (k & Hkr & HkL & Heq & Hnewer). exists k. split; [exact Hkr|]. split; [rewrite app_length; lia|].
    split; [rewrite firstn_app; replace (k - length (log_of c L))%nat with 0%nat by lia; cbn; rewrite app_nil_r; exact Heq|].
    intros e1 e2 H1 H2. rewrite skipn_app in H1. apply in_app_or in H1. destruct H1 as [H1|H1]; [apply Hnewer; assumption|].
    replace (k - length (log_of c L))%nat with 0%nat in H1 by lia. cbn in H1. destruct H1 as [<-|[]]. cbn [ep fst x].
    pose proof (HA r e2 (in_skipn_in _ _ _ H2)) as Hle. destruct (N.eq_dec (ep e2) E) as [Heq2|Hne2]; [|lia]. exfalso.
    destruct (in_skipn_inv _ _ _ H2) as (j & Hj & Hnj). pose proof (HC r j e2 Hnj Heq2) as HLj.
    pose proof (Hnewer e2 e2 (in_skipn_nth k _ j e2 Hj HLj) H2). lia.
  - intros r Hr Hv. unfold view_of in Hv |- *. rewrite Eview in Hv |- *. destruct (N.eq_dec r L) as [->|Hne].
    + rewrite alookup_aset_same in *. split; [exact HL1|]. rewrite HlogL, app_length. cbn. lia.
    + rewrite alookup_aset_other in * by exact Hne. rewrite (Hlogo r Hne). apply (HV r Hr). exact Hv.
  - intros r Hr. destruct (Hcases r) as [[-> Hl]|[Hne Hl]]; rewrite Hl; [|apply HG; exact Hr].
    apply (prefix_trans _ (log_of c L)); [apply HG; exact HL2|apply prefix_app].
  - intros r. rewrite Hhw. apply HH0.
  - intros r. rewrite Hhw. apply HH1.
  - intros r o e Ho Hn. rewrite Hhw in Ho. destruct (Hcases r) as [[-> Hl]|[Hne Hl]]; rewrite Hl in Hn; [|apply (HH2 r); assumption].
    pose proof (HH1 L). pose proof (prefix_length _ _ (HG L HL2)). rewrite nth_error_app1 in Hn by lia. apply (HH2 L); assumption.
Qed.

(* the leader records what a reconciled follower reports *)
Lemma report_inv c c2 r : Inv c -> In r (c_synced c) ->
  c_logs c2 = c_logs c -> same_except_logs_view c c2 ->
  c_view c2 = aset r (Z.max (view_of c r) (newest_of c r)) (c_view c) -> Inv c2.
Proof.
  intros [HA HB HC HD [HL1 HL2] HK HV HG HH0 HH1 HH2] Hr Elogs (Ehw & Eld & Eep & Eisr & Esy & Eco) Eview.
  assert (Hlog : forall x, log_of c2 x = log_of c x) by (intros x; unfold log_of; rewrite Elogs; reflexivity).
  assert (Hhw : forall x, hw_of c2 x = hw_of c x) by (intros x; unfold hw_of; rewrite Ehw; reflexivity).
  constructor; rewrite ?Eld, ?Eep, ?Eisr, ?Esy, ?Eco.
  - intros x e. rewrite Hlog. apply HA.
  - intros x. rewrite Hlog. apply HB.
  - intros x o e. rewrite !Hlog. apply HC.
  - intros x. rewrite !Hlog. apply HD.
  - split; assumption.
  - intros x. rewrite !Hlog. apply HK.
  - intros x Hx Hv. rewrite Hlog. unfold view_of in Hv |- *. rewrite Eview in Hv |- *. destruct (N.eq_dec x r) as [->|Hne].
    + rewrite alookup_aset_same in *. split; [exact Hr|]. fold (view_of c r) in *. unfold newest_of in *.
      destruct (Z.max_spec (view_of c r) (Z.of_nat (length (log_of c r)) - 1)) as [[_ E]|[Hlt E]]; rewrite E in *; [lia|].
      apply (HV r Hx). exact Hv.
    + rewrite alookup_aset_other in * by exact Hne. apply (HV x Hx). exact Hv.
  - intros x. rewrite Hlog. apply HG.
  - intros x. rewrite Hhw. apply HH0.
  - intros x. rewrite Hhw. apply HH1.
  - intros x o e. rewrite Hhw, Hlog. apply HH2.
Qed.

(* a reconciled follower receives the next entries of the leader's log and the leader's HW *)
Lemma fetch_inv c c2 r n : Inv c -> In r (c_synced c) -> r <> c_leader c ->
  c_logs c2 = aset r (log_of c r ++ firstn n (skipn (length (log_of c r)) (log_of c (c_leader c)))) (c_logs c) ->
  c_hws c2 = aset r (Z.max (hw_of c r) (hw_of c (c_leader c))) (c_hws c) ->
  c_leader c2 = c_leader c -> c_epoch c2 = c_epoch c -> c_isr c2 = c_isr c -> c_view c2 = c_view c ->
  c_synced c2 = c_synced c -> c_committed c2 = c_committed c -> Inv c2.
Proof.
  intros [HA HB HC HD [HL1 HL2] HK HV HG HH0 HH1 HH2] Hr HrL Elogs Ehw Eld Eep Eisr Eview Esy Eco.
  set (L := c_leader c) in *. set (data := firstn n (skipn (length (log_of c r)) (log_of c L))) in *.
  assert (Hlogr : log_of c2 r = log_of c r ++ data) by (unfold log_of at 1; rewrite Elogs, alookup_aset_same; reflexivity).
  assert (Hlogo : forall x, x <> r -> log_of c2 x = log_of c x) by (intros x Hn; unfold log_of; rewrite Elogs, alookup_aset_other by exact Hn; reflexivity).
  assert (HlogL : log_of c2 L = log_of c L) by (apply Hlogo; intros E; apply HrL; symmetry; exact E).
  assert (Hpre : prefix (log_of c r ++ data) (log_of c L)) by (apply prefix_extend; apply HD; exact Hr).
  assert (Hview : forall x, view_of c2 x = view_of c x) by (intros x; unfold view_of; rewrite Eview; reflexivity).
  assert (Hhwr : hw_of c2 r = Z.max (hw_of c r) (hw_of c L)) by (unfold hw_of at 1; rewrite Ehw, alookup_aset_same; reflexivity).
  assert (Hhwo : forall x, x <> r -> hw_of c2 x = hw_of c x) by (intros x Hn; unfold hw_of; rewrite Ehw, alookup_aset_other by exact Hn; reflexivity).
  assert (Hcases : forall x, (x = r /\ log_of c2 x = log_of c r ++ data) \/ (x <> r /\ log_of c2 x = log_of c x)).
  { intros x. destruct (N.eq_dec x r) as [->|Hn]; [left; split; [reflexivity|exact Hlogr]|right; split; [exact Hn|apply Hlogo; exact Hn]]. }
  assert (HcomL : prefix (c_committed c) (log_of c L)) by (apply HG; exact HL2).
  constructor; rewrite ?Eld, ?Eep, ?Eisr, ?Esy, ?Eco; fold L.
  - intros x e Hin. destruct (Hcases x) as [[-> Hl]|[Hn Hl]]; rewrite Hl in Hin; [|apply (HA x); exact Hin].
    destruct Hpre as [t Ht]. apply (HA L). rewrite Ht. apply in_or_app. left. exact Hin.
  - intros x. destruct (Hcases x) as [[-> Hl]|[Hn Hl]]; rewrite Hl; [|apply HB]. apply (mono_prefix _ (log_of c L) Hpre). apply HB.
  - intros x o e Hn He. rewrite HlogL. destruct (Hcases x) as [[-> Hl]|[Hne Hl]]; rewrite Hl in Hn; [apply (prefix_nth _ _ _ _ Hpre Hn)|apply (HC x o e Hn He)].
  - intros x Hx. rewrite HlogL. destruct (Hcases x) as [[-> Hl]|[Hne Hl]]; rewrite Hl; [exact Hpre|apply HD; exact Hx].
  - split; assumption.
  - intros x. rewrite HlogL. destruct (Hcases x) as [[-> Hl]|[Hne Hl]]; rewrite Hl; [apply chain_prefix; exact Hpre|apply HK].
  - intros x Hx Hv. rewrite Hview in *. destruct (HV x Hx Hv) as [H1 H2]. split; [exact H1|].
    destruct (Hcases x) as [[-> Hl]|[Hne Hl]]; rewrite Hl; [rewrite app_length; lia|exact H2].
  - intros x Hx. destruct (Hcases x) as [[-> Hl]|[Hne Hl]]; rewrite Hl; [|apply HG; exact Hx].
    apply (prefix_trans _ (log_of c r)); [apply HG; exact Hx|apply prefix_app].
  - intros x. destruct (N.eq_dec x r) as [->|Hne]; [rewrite Hhwr; pose proof (HH0 r); lia|rewrite Hhwo by exact Hne; apply HH0].
  - intros x. destruct (N.eq_dec x r) as [->|Hne]; [rewrite Hhwr; pose proof (HH1 r); pose proof (HH1 L); lia|rewrite Hhwo by exact Hne; apply HH1].
  - intros x o e Ho Hn. destruct (N.eq_dec x r) as [->|Hne].
    + rewrite Hhwr in Ho. rewrite Hlogr in Hn. pose proof (prefix_nth _ _ _ _ Hpre Hn) as HnL.
      pose proof (HH1 r). pose proof (HH1 L). destruct HcomL as [t Ht]. rewrite Ht in HnL. rewrite nth_error_app1 in HnL by lia. exact HnL.
    + rewrite Hhwo in Ho by exact Hne. rewrite Hlogo in Hn by exact Hne. apply (HH2 x); assumption.
Qed.

(* chain with a prefix of the old leader's log in place of it *)
Lemma chain_new_leader r L N : chain r L -> prefix N L -> chain r N.
Proof.
  intros (k & Hkr & HkL & Heq & Hnewer) Hp. destruct (le_lt_dec k (length N)) as [Hle|Hgt].
  - exists k. split; [exact Hkr|]. split; [exact Hle|]. split; [rewrite Heq; symmetry; apply prefix_firstn_eq; assumption|].
    intros e1 e2 H1 H2. apply Hnewer; [|exact H2]. destruct Hp as [t ->]. rewrite skipn_app. apply in_or_app. left. exact H1.
  - (* the new leader's log is within the common part *)
    exists (length N). split; [lia|]. split; [lia|]. split.
    + rewrite firstn_all. assert (E : firstn (length N) r = firstn (length N) (firstn k r)) by (rewrite firstn_firstn, Nat.min_l by lia; reflexivity).
      rewrite E, Heq, firstn_firstn, Nat.min_l by lia. symmetry. rewrite <- (firstn_all N) at 1. apply prefix_firstn_eq; [exact Hp|lia].
    + intros e1 e2 H1 _. rewrite skipn_all in H1. destruct H1.
Qed.

Lemma alookup_map_fun (f : N -> Z) l x : In x l -> alookup x (map (fun y => (y, f y)) l) = Some (f x).
Proof.
  induction l as [|y t IH]; intros Hx; [destruct Hx|]. cbn [map alookup]. destruct (N.eqb_spec y x) as [->|Hne]; [reflexivity|].
  destruct Hx as [E|Hx]; [contradiction|apply IH; exact Hx].
Qed.

(* a reconciled member of the ISR becomes leader of a new epoch; it forgets earlier offset reports *)
Lemma elect_inv c c2 N e : Inv c -> In N (c_isr c) -> In N (c_synced c) -> (c_epoch c < e)%N ->
  c_logs c2 = c_logs c -> c_hws c2 = c_hws c -> c_leader c2 = N -> c_epoch c2 = e -> c_isr c2 = c_isr c ->
  c_view c2 = map (fun x => (x, if N.eqb x N then newest_of c N else -1)) (c_isr c) ->
  c_synced c2 = [N] -> c_committed c2 = c_committed c -> Inv c2.
Proof.
  intros [HA HB HC HD [HL1 HL2] HK HV HG HH0 HH1 HH2] HNi HNs He Elogs Ehw Eld Eep Eisr Eview Esy Eco.
  assert (Hlog : forall x, log_of c2 x = log_of c x) by (intros x; unfold log_of; rewrite Elogs; reflexivity).
  assert (Hhw : forall x, hw_of c2 x = hw_of c x) by (intros x; unfold hw_of; rewrite Ehw; reflexivity).
  assert (Hview : forall x, In x (c_isr c) -> view_of c2 x = if N.eqb x N then newest_of c N else -1).
  { intros x Hx. unfold view_of. rewrite Eview. rewrite (alookup_map_fun (fun y => if N.eqb y N then newest_of c N else -1) _ x Hx). reflexivity. }
  constructor; rewrite ?Eld, ?Eep, ?Eisr, ?Esy, ?Eco.
  - intros x y Hin. rewrite Hlog in Hin. pose proof (HA x y Hin). lia.
  - intros x. rewrite Hlog. apply HB.
  - intros x o y Hn Hy. rewrite Hlog in Hn. pose proof (HA x y (nth_error_In _ _ Hn)). lia.
  - intros x [<-|[]]. rewrite Hlog. apply prefix_refl.
  - split; [left; reflexivity|exact HNi].
  - intros x. rewrite !Hlog. apply (chain_new_leader _ (log_of c (c_leader c))); [apply HK|apply HD; exact HNs].
  - intros x Hx Hv. rewrite (Hview x Hx) in *. rewrite Hlog. destruct (N.eqb_spec x N) as [->|Hne]; [|lia]. split; [left; reflexivity|unfold newest_of; lia].
  - intros x. rewrite Hlog. apply HG.
  - intros x. rewrite Hhw. apply HH0.
  - intros x. rewrite Hhw. apply HH1.
  - intros x o y. rewrite Hhw, Hlog. apply HH2.
Qed.

(* a replica that has not reconciled with the current leader asks where its last epoch ends and cuts *)
Lemma reconcile_inv c c2 r : Inv c -> ~ In r (c_synced c) ->
  c_logs c2 = aset r (firstn (Z.to_nat (last_le (last_epoch (log_of c r)) (log_of c (c_leader c)) + 1)) (log_of c r)) (c_logs c) ->
  c_hws c2 = c_hws c -> c_leader c2 = c_leader c -> c_epoch c2 = c_epoch c -> c_isr c2 = c_isr c -> c_view c2 = c_view c ->
  c_synced c2 = r :: c_synced c -> c_committed c2 = c_committed c -> Inv c2.
Proof.
  intros [HA HB HC HD [HL1 HL2] HK HV HG HH0 HH1 HH2] Hns Elogs Ehw Eld Eep Eisr Eview Esy Eco.
  set (L := c_leader c) in *. set (r' := firstn (Z.to_nat (last_le (last_epoch (log_of c r)) (log_of c L) + 1)) (log_of c r)) in *.
  assert (HrL : r <> L) by (intros ->; contradiction).
  destruct (reconcile_correct (log_of c r) (log_of c L) (HK r) (HB r)) as [Hpre Hkeep]. fold r' in Hpre, Hkeep.
  assert (Hpr : prefix r' (log_of c r)) by apply prefix_firstn.
  assert (Hlogr : log_of c2 r = r') by (unfold log_of at 1; rewrite Elogs, alookup_aset_same; reflexivity).
  assert (Hlogo : forall x, x <> r -> log_of c2 x = log_of c x) by (intros x Hn; unfold log_of; rewrite Elogs, alookup_aset_other by exact Hn; reflexivity).
  assert (HlogL : log_of c2 L = log_of c L) by (apply Hlogo; intros E; apply HrL; symmetry; exact E).
  assert (Hhw : forall x, hw_of c2 x = hw_of c x) by (intros x; unfold hw_of; rewrite Ehw; reflexivity).
  assert (Hview : forall x, view_of c2 x = view_of c x) by (intros x; unfold view_of; rewrite Eview; reflexivity).
  assert (Hcases : forall x, (x = r /\ log_of c2 x = r') \/ (x <> r /\ log_of c2 x = log_of c x)).
  { intros x. destruct (N.eq_dec x r) as [->|Hn]; [left; split; [reflexivity|exact Hlogr]|right; split; [exact Hn|apply Hlogo; exact Hn]]. }
  constructor; rewrite ?Eld, ?Eep, ?Eisr, ?Esy, ?Eco; fold L.
  - intros x e Hin. destruct (Hcases x) as [[-> Hl]|[Hn Hl]]; rewrite Hl in Hin; [apply (HA r); apply (in_firstn_in _ _ _ Hin)|apply (HA x); exact Hin].
  - intros x. destruct (Hcases x) as [[-> Hl]|[Hn Hl]]; rewrite Hl; [apply (mono_prefix _ _ Hpr); apply HB|apply HB].
  - intros x o e Hn He. rewrite HlogL. destruct (Hcases x) as [[-> Hl]|[Hne Hl]]; rewrite Hl in Hn; [apply (HC r o e); [apply (prefix_nth _ _ _ _ Hpr Hn)|exact He]|apply (HC x o e Hn He)].
  - intros x Hx. rewrite HlogL. destruct (Hcases x) as [[-> Hl]|[Hne Hl]]; rewrite Hl; [exact Hpre|]. destruct Hx as [E|Hx]; [exfalso; apply Hne; symmetry; exact E|apply HD; exact Hx].
  - split; [right; exact HL1|exact HL2].
  - intros x. rewrite HlogL. destruct (Hcases x) as [[-> Hl]|[Hne Hl]]; rewrite Hl; [apply chain_prefix; exact Hpre|apply HK].
  - intros x Hx Hv. rewrite Hview in *. destruct (HV x Hx Hv) as [H1 H2]. destruct (Hcases x) as [[-> Hl]|[Hne Hl]]; [contradiction|]. rewrite Hl. split; [right; exact H1|exact H2].
  - intros x Hx. destruct (Hcases x) as [[-> Hl]|[Hne Hl]]; rewrite Hl; [|apply HG; exact Hx]. apply Hkeep; [apply HG; exact Hx|apply HG; exact HL2].
  - intros x. rewrite Hhw. apply HH0.
  - intros x. rewrite Hhw. apply HH1.
  - intros x o e Ho Hn. rewrite Hhw in Ho. destruct (Hcases x) as [[-> Hl]|[Hne Hl]]; rewrite Hl in Hn; [apply (HH2 r o e Ho); apply (prefix_nth _ _ _ _ Hpr Hn)|apply (HH2 x); assumption].
Qed.

Lemma shrink_inv c c2 r : Inv c -> r <> c_leader c ->
  c_logs c2 = c_logs c -> c_hws c2 = c_hws c -> c_leader c2 = c_leader c -> c_epoch c2 = c_epoch c ->
  c_isr c2 = filter (fun x => negb (N.eqb x r)) (c_isr c) -> c_view c2 = c_view c -> c_synced c2 = c_synced c -> c_committed c2 = c_committed c -> Inv c2.
Proof.
  intros [HA HB HC HD [HL1 HL2] HK HV HG HH0 HH1 HH2] HrL Elogs Ehw Eld Eep Eisr Eview Esy Eco.
  assert (Hlog : forall x, log_of c2 x = log_of c x) by (intros x; unfold log_of; rewrite Elogs; reflexivity).
  assert (Hhw : forall x, hw_of c2 x = hw_of c x) by (intros x; unfold hw_of; rewrite Ehw; reflexivity).
  assert (Hview : forall x, view_of c2 x = view_of c x) by (intros x; unfold view_of; rewrite Eview; reflexivity).
  assert (Hsub : forall x, In x (c_isr c2) -> In x (c_isr c)) by (intros x Hx; rewrite Eisr in Hx; apply filter_In in Hx; apply Hx).
  constructor; rewrite ?Eld, ?Eep, ?Esy, ?Eco.
  - intros x e. rewrite Hlog. apply HA.
  - intros x. rewrite Hlog. apply HB.
  - intros x o e. rewrite !Hlog. apply HC.
  - intros x. rewrite !Hlog. apply HD.
  - split; [exact HL1|]. rewrite Eisr. apply filter_In. split; [exact HL2|]. destruct (N.eqb_spec (c_leader c) r) as [E|_]; [exfalso; apply HrL; symmetry; exact E|reflexivity].
  - intros x. rewrite !Hlog. apply HK.
  - intros x Hx. rewrite Hview, Hlog. apply HV. apply Hsub. exact Hx.
  - intros x Hx. rewrite Hlog. apply HG. apply Hsub. exact Hx.
  - intros x. rewrite Hhw. apply HH0.
  - intros x. rewrite Hhw. apply HH1.
  - intros x o e. rewrite Hhw, Hlog. apply HH2.
Qed.

Lemma expand_inv c c2 r : Inv c -> In r (c_synced c) -> length (log_of c r) = length (log_of c (c_leader c)) ->
  c_logs c2 = c_logs c -> c_hws c2 = c_hws c -> c_leader c2 = c_leader c -> c_epoch c2 = c_epoch c ->
  c_isr c2 = c_isr c ++ [r] -> c_view c2 = aset r (-1) (c_view c) -> c_synced c2 = c_synced c -> c_committed c2 = c_committed c -> Inv c2.
Proof.
  intros [HA HB HC HD [HL1 HL2] HK HV HG HH0 HH1 HH2] Hr Hlen Elogs Ehw Eld Eep Eisr Eview Esy Eco.
  assert (Hlog : forall x, log_of c2 x = log_of c x) by (intros x; unfold log_of; rewrite Elogs; reflexivity).
  assert (Hhw : forall x, hw_of c2 x = hw_of c x) by (intros x; unfold hw_of; rewrite Ehw; reflexivity).
  assert (Heq : log_of c r = log_of c (c_leader c)) by (apply prefix_same_length; [apply HD; exact Hr|exact Hlen]).
  constructor; rewrite ?Eld, ?Eep, ?Esy, ?Eco.
  - intros x e. rewrite Hlog. apply HA.
  - intros x. rewrite Hlog. apply HB.
  - intros x o e. rewrite !Hlog. apply HC.
  - intros x. rewrite !Hlog. apply HD.
  - split; [exact HL1|]. rewrite Eisr. apply in_or_app. left. exact HL2.
  - intros x. rewrite !Hlog. apply HK.
  - intros x Hx Hv. rewrite Hlog. unfold view_of in Hv |- *. rewrite Eview in Hv |- *. destruct (N.eq_dec x r) as [->|Hne].
    + rewrite alookup_aset_same in Hv. lia.
    + rewrite alookup_aset_other in * by exact Hne. rewrite Eisr in Hx. apply in_app_or in Hx. destruct Hx as [Hx|[E|[]]]; [apply (HV x Hx); exact Hv|exfalso; apply Hne; symmetry; exact E].
  - intros x Hx. rewrite Hlog. rewrite Eisr in Hx. apply in_app_or in Hx. destruct Hx as [Hx|[<-|[]]]; [apply HG; exact Hx|]. rewrite Heq. apply HG. exact HL2.
  - intros x. rewrite Hhw. apply HH0.
  - intros x. rewrite Hhw. apply HH1.
  - intros x o e. rewrite Hhw, Hlog. apply HH2.
Qed.

(* ------------------------------------------------------------------ every step, every history *)
Definition published (c : cluster) (v : N) : cluster :=
  let c1 := set_log c (c_leader c) (log_of c (c_leader c) ++ [(c_epoch c, v)]) in set_view c1 (c_leader c) (newest_of c1 (c_leader c)).

Lemma published_inv c v : Inv c -> Inv (published c v).
Proof.
  intros HI. eapply (publish_inv c _ v HI).
  - repeat split; reflexivity.
  - reflexivity.
  - unfold published. cbn [c_view set_view set_log]. unfold newest_of. rewrite log_set_same, app_length. cbn [length]. f_equal. lia.
Qed.

Theorem step_inv c x c' : Inv c -> step true c x = Some c' -> Inv c'.
Proof.
  intros HI H. destruct x as [v|r n|r e|r|r|r]; cbn [step] in H.
  - (* publish *)
    injection H as <-. apply commit_inv. apply (published_inv c v HI).
  - (* fetch *)
    destruct (mem r (c_synced c)) eqn:Hs; [|discriminate]. destruct (N.eqb_spec r (c_leader c)) as [E|Hne]; [discriminate|]. cbn [andb negb] in H.
    apply mem_in in Hs. injection H as <-.
    set (c1 := if mem r (c_isr c) then commit (set_view c r (Z.max (view_of c r) (newest_of c r))) else c).
    assert (HI1 : Inv c1).
    { unfold c1. destruct (mem r (c_isr c)); [|exact HI]. apply commit_inv. eapply (report_inv c _ r HI Hs); [reflexivity|repeat split; reflexivity|reflexivity]. }
    assert (Elogs : c_logs c1 = c_logs c).
    { unfold c1. destruct (mem r (c_isr c)); [|reflexivity]. unfold commit. destruct (Nat.ltb _ _); [reflexivity|]. destruct (_ <=? _); reflexivity. }
    assert (Hlog : forall x, log_of c1 x = log_of c x) by (intros x; unfold log_of; rewrite Elogs; reflexivity).
    assert (Eld : c_leader c1 = c_leader c).
    { unfold c1. destruct (mem r (c_isr c)); [|reflexivity]. unfold commit. destruct (Nat.ltb _ _); [reflexivity|]. destruct (_ <=? _); reflexivity. }
    assert (Esy : c_synced c1 = c_synced c).
    { unfold c1. destruct (mem r (c_isr c)); [|reflexivity]. unfold commit. destruct (Nat.ltb _ _); [reflexivity|]. destruct (_ <=? _); reflexivity. }
    eapply (fetch_inv c1 _ r n HI1); try reflexivity.
    + rewrite Esy. exact Hs.
    + rewrite Eld. exact Hne.
    + cbn [c_logs set_log]. rewrite !Hlog, Eld. reflexivity.
    + cbn [c_hws]. rewrite Eld. reflexivity.
    + cbn [c_leader]. rewrite Eld. reflexivity.
  - (* elect *)
    destruct (mem r (c_isr c)) eqn:Hi; [|discriminate]. destruct (mem r (c_synced c)) eqn:Hs; [|discriminate].
    destruct (N.eqb_spec r (c_leader c)); [discriminate|]. destruct (N.ltb_spec (c_epoch c) e); [|discriminate]. cbn [andb negb] in H. injection H as <-.
    apply mem_in in Hi. apply mem_in in Hs. eapply (elect_inv c _ r e HI Hi Hs); try reflexivity. exact H0.
  - (* reconcile *)
    destruct (mem r (c_synced c)) eqn:Hs; [discriminate|]. cbn [negb] in H. injection H as <-.
    assert (Hns : ~ In r (c_synced c)) by (intros Hin; apply mem_in in Hin; congruence).
    eapply (reconcile_inv c _ r HI Hns); reflexivity.
  - (* shrink *)
    destruct (mem r (c_isr c)); [|discriminate]. destruct (N.eqb_spec r (c_leader c)) as [E|Hne]; [discriminate|]. cbn [andb negb] in H. injection H as <-.
    apply commit_inv. eapply (shrink_inv c _ r HI Hne); reflexivity.
  - (* expand *)
    destruct (mem r (c_isr c)); [discriminate|]. destruct (mem r (c_synced c)) eqn:Hs; [|discriminate].
    destruct (Nat.eqb_spec (length (log_of c r)) (length (log_of c (c_leader c)))) as [Hl|Hl]; [|discriminate]. cbn [andb negb] in H. injection H as <-.
    apply mem_in in Hs. eapply (expand_inv c _ r HI Hs Hl); reflexivity.
Qed.

Lemma alookup_map_nil (l : list N) x : match alookup x (map (fun r => (r, @nil entry)) l) with Some v => v | None => [] end = [].
Proof. induction l as [|y t IH]; [reflexivity|]. cbn [map alookup]. destruct (N.eqb y x); [reflexivity|exact IH]. Qed.

Lemma alookup_map_m1 (l : list N) x : match alookup x (map (fun r => (r, -1)) l) with Some v => v | None => -1 end = -1.
Proof. induction l as [|y t IH]; [reflexivity|]. cbn [map alookup]. destruct (N.eqb y x); [reflexivity|exact IH]. Qed.

Lemma inv_init replicas L e m : In L replicas -> Inv (init_cluster replicas L e m).
Proof.
  intros HL. assert (Hlog : forall x, log_of (init_cluster replicas L e m) x = []) by (intros x; unfold log_of, init_cluster; cbn [c_logs]; apply alookup_map_nil).
  assert (Hhw : forall x, hw_of (init_cluster replicas L e m) x = -1) by (intros x; unfold hw_of, init_cluster; cbn [c_hws]; apply alookup_map_m1).
  assert (Hview : forall x, view_of (init_cluster replicas L e m) x = -1) by (intros x; unfold view_of, init_cluster; cbn [c_view]; apply alookup_map_m1).
  constructor; cbn [init_cluster c_epoch c_leader c_synced c_isr c_committed].
  - intros r x. rewrite Hlog. intros [].
  - intros r i j e1 e2 _ H1. rewrite Hlog in H1. destruct i; discriminate.
  - intros r o x H1. rewrite Hlog in H1. destruct o; discriminate.
  - intros r _. rewrite !Hlog. apply prefix_refl.
  - split; exact HL.
  - intros r. rewrite !Hlog. apply chain_prefix. apply prefix_refl.
  - intros r _ Hv. rewrite Hview in Hv. lia.
  - intros r _. exists (log_of (init_cluster replicas L e m) r). reflexivity.
  - intros r. rewrite Hhw. lia.
  - intros r. rewrite Hhw. cbn. lia.
  - intros r o x _ H1. rewrite Hlog in H1. destruct o; discriminate.
Qed.

Theorem run_inv xs : forall c, Inv c -> Inv (run true c xs).
Proof.
  induction xs as [|x r IH]; intros c HI; cbn [run]; [exact HI|]. destruct (step true c x) as [c'|] eqn:E; [apply IH; apply (step_inv c x c' HI E)|apply IH; exact HI].
Qed.

(* ---- what the invariant says ---- *)
(* any two replicas hold the same entry at every offset at or below both of their HWs *)
Theorem replicas_agree_below_hw c r1 r2 o e1 e2 : Inv c -> Z.of_nat o <= hw_of c r1 -> Z.of_nat o <= hw_of c r2 ->
  nth_error (log_of c r1) o = Some e1 -> nth_error (log_of c r2) o = Some e2 -> e1 = e2.
Proof. intros HI H1 H2 N1 N2. pose proof (iH2 c HI r1 o e1 H1 N1). pose proof (iH2 c HI r2 o e2 H2 N2). congruence. Qed.

(* the leader, and every in-sync replica (the ones that may be elected), hold everything that was ever committed *)
Theorem isr_holds_committed c r : Inv c -> In r (c_isr c) -> prefix (c_committed c) (log_of c r).
Proof. intros HI. apply (iG c HI). Qed.

Theorem leader_holds_committed c : Inv c -> prefix (c_committed c) (log_of c (c_leader c)).
Proof. intros HI. apply (iG c HI). apply (iL c HI). Qed.

(* every replica's HW lies within what was committed *)
Theorem hw_is_committed c r : Inv c -> hw_of c r + 1 <= Z.of_nat (length (c_committed c)).
Proof. intros HI. apply (iH1 c HI). Qed.

(* what was committed stays committed: the committed prefix only grows *)
Lemma commit_grows c : Inv c -> prefix (c_committed c) (c_committed (commit c)).
Proof.
  intros HI. unfold commit. destruct (Nat.ltb _ _); [apply prefix_refl|]. destruct (_ <=? hw_of c (c_leader c)); [apply prefix_refl|]. cbn [c_committed].
  destruct (Z.leb_spec (Z.of_nat (length (c_committed c))) (min_view c)); [|apply prefix_refl].
  apply prefix_of_firstn; [apply (leader_holds_committed c HI)|lia].
Qed.

Theorem committed_survives_step c x c' : Inv c -> step true c x = Some c' -> prefix (c_committed c) (c_committed c').
Proof.
  intros HI H. destruct x as [v|r n|r e|r|r|r]; cbn [step] in H.
  - injection H as <-. apply (commit_grows (published c v) (published_inv c v HI)).
  - destruct (mem r (c_synced c)) eqn:Hs; [|discriminate]. destruct (N.eqb_spec r (c_leader c)); [discriminate|]. cbn [andb negb] in H. injection H as <-. cbn [c_committed set_log].
    apply mem_in in Hs. destruct (mem r (c_isr c)); [|apply prefix_refl].
    match goal with |- prefix _ (c_committed (commit ?C2)) => set (c2 := C2) end.
    assert (HI2 : Inv c2) by (eapply (report_inv c _ r HI Hs); [reflexivity|repeat split; reflexivity|reflexivity]).
    apply (commit_grows c2 HI2).
  - destruct (mem r (c_isr c) && mem r (c_synced c) && negb (N.eqb r (c_leader c)) && (c_epoch c <? e)%N); [|discriminate]. injection H as <-. apply prefix_refl.
  - destruct (negb (mem r (c_synced c))); [|discriminate]. injection H as <-. apply prefix_refl.
  - destruct (mem r (c_isr c)); [|discriminate]. destruct (N.eqb_spec r (c_leader c)) as [E|Hne]; [discriminate|]. cbn [andb negb] in H. injection H as <-.
    match goal with |- prefix _ (c_committed (commit ?C2)) => set (c2 := C2) end.
    assert (HI2 : Inv c2) by (eapply (shrink_inv c _ r HI Hne); reflexivity).
    apply (commit_grows c2 HI2).
  - destruct (negb (mem r (c_isr c)) && mem r (c_synced c) && (length (log_of c r) =? length (log_of c (c_leader c)))%nat); [|discriminate]. injection H as <-. apply prefix_refl.
Qed.

(* Once committed, always there: for every history, what was committed at any point is a prefix of
   the log of every later leader and in-sync replica. *)
Theorem committed_survives xs : forall c, Inv c -> prefix (c_committed c) (c_committed (run true c xs)).
Proof.
  induction xs as [|x r IH]; intros c HI; cbn [run]; [apply prefix_refl|]. destruct (step true c x) as [c'|] eqn:E; [|apply IH; exact HI].
  apply (prefix_trans _ (c_committed c')); [apply (committed_survives_step c x c' HI E)|apply IH; apply (step_inv c x c' HI E)].
Qed.

(* the pinned code: the leader's offset table survives its terms *)
Theorem stale_view_refuted :
  let c := run false (init_cluster [0; 1; 2]%N 0%N 4%N 1)
             [KPublish 0; KPublish 1; KPublish 2; KPublish 3; KPublish 4; KPublish 5; KFetch 1 6; KFetch 1 0; KFetch 2 4; KFetch 2 0;
              KElect 2 5; KReconcile 0; KReconcile 1; KPublish 14; KFetch 0 5; KFetch 1 5;
              KElect 0 6; KReconcile 1; KReconcile 2; KPublish 25; KFetch 2 5; KFetch 2 0]%N in
  hw_of c 0%N = 5 /\ length (log_of c 1%N) = 5%nat /\ In 1%N (c_isr c).
Proof. vm_compute. repeat split; auto. Qed.

(* ---- "hold identical messages at every offset at or below both HWs", read strictly ----
   The replicas that can be elected -- the in-sync ones and the leader -- hold a message at every
   offset at or below their own HW, and it is the committed one. *)
Lemma committed_prefix_below_hw c r l o : Inv c -> prefix (c_committed c) l -> Z.of_nat o <= hw_of c r ->
  exists e, nth_error l o = Some e /\ nth_error (c_committed c) o = Some e.
Proof.
  intros HI [t ->] Ho. pose proof (hw_is_committed c r HI) as Hh.
  destruct (nth_error (c_committed c) o) as [e|] eqn:E; [|apply nth_error_None in E; lia].
  exists e. split; [|reflexivity]. rewrite nth_error_app1; [exact E|apply nth_error_Some; congruence].
Qed.

Theorem electable_hold_everything_below_hw c r o : Inv c -> In r (c_isr c) \/ r = c_leader c -> Z.of_nat o <= hw_of c r ->
  exists e, nth_error (log_of c r) o = Some e /\ nth_error (c_committed c) o = Some e.
Proof.
  intros HI [Hr| ->] Ho.
  - apply (committed_prefix_below_hw c r _ o HI); [apply isr_holds_committed; assumption|exact Ho].
  - apply (committed_prefix_below_hw c (c_leader c) _ o HI); [apply leader_holds_committed; assumption|exact Ho].
Qed.

Theorem electable_identical_below_both_hws c r1 r2 o : Inv c ->
  In r1 (c_isr c) \/ r1 = c_leader c -> In r2 (c_isr c) \/ r2 = c_leader c ->
  Z.of_nat o <= hw_of c r1 -> Z.of_nat o <= hw_of c r2 ->
  exists e, nth_error (log_of c r1) o = Some e /\ nth_error (log_of c r2) o = Some e.
Proof.
  intros HI H1 H2 Ho1 Ho2. destruct (electable_hold_everything_below_hw c r1 o HI H1 Ho1) as (e1 & A1 & B1).
  destruct (electable_hold_everything_below_hw c r2 o HI H2 Ho2) as (e2 & A2 & B2). exists e1. split; [exact A1|]. congruence.
Qed.

(* a replica outside the in-sync set need not: it takes the leader's HW from every replication
   response, also from one that brings it only part of the way *)
Lemma lagging_replica_hw_beyond_its_log :
  let c := run true (init_cluster [0; 1; 2]%N 0%N 4%N 1)
             [KPublish 0; KPublish 1; KPublish 2; KFetch 1 3; KFetch 1 0; KShrink 2; KFetch 2 1]%N in
  hw_of c 2%N = 2 /\ length (log_of c 2%N) = 1%nat /\ ~ In 2%N (c_isr c) /\ hw_of c 0%N = 2.
Proof. vm_compute. repeat split; try reflexivity. intros [H|[H|[]]]; discriminate. Qed.
