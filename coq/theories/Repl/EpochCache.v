(* The leader-epoch cache (server/commitlog/leader_epoch_cache.go, commitlog.go append /
   NewLeaderEpoch / Truncate) and the leader-epoch-offset answer
   (partition.go handleLeaderOffsetRequest): the cache computes exactly Repl.Cluster.last_le.

   Variant switch v (true = repaired code): an elected leader records its epoch at the offset of
   the next message (as a replica does when it sees the first message of the epoch) and the answer
   is the offset before the next epoch's start; the pinned code recorded the last existing offset
   on election and answered with the start offset itself. *)
From LB Require Import Base.Prelude Meta.Fsm Repl.Cluster.
Open Scope Z_scope.

Definition ecache := list (N * Z).      (* (epoch, start offset), epochs increasing *)

Definition latest_epoch (c : ecache) : N := match rev c with (e, _) :: _ => e | [] => 0%N end.
Definition latest_start (c : ecache) : Z := match rev c with (_, s) :: _ => s | [] => -1 end.

(* leaderEpochCache.assign *)
Definition assign (c : ecache) (e : N) (o : Z) : ecache :=
  if (latest_epoch c <? e)%N && (latest_start c <=? o) then c ++ [(e, o)] else c.

(* commitLog.append: each entry of a new epoch is recorded at its own offset *)
Fixpoint assign_all (c : ecache) (es : list entry) (pos : Z) : ecache :=
  match es with
  | [] => c
  | x :: r => assign_all (assign c (ep x) pos) r (pos + 1)
  end.

(* NewLeaderEpoch on election *)
Definition elect_cache (v : bool) (c : ecache) (log : list entry) (e : N) : ecache :=
  assign c e (if v then Z.of_nat (length log) else Z.of_nat (length log) - 1).

(* Truncate(t): ClearLatest(t) *)
Definition truncate_cache (c : ecache) (t : Z) : ecache := filter (fun es => snd es <? t) c.

(* findEpoch(q + 1): the first entry whose epoch is above q *)
Definition find_above (c : ecache) (q : N) : option (N * Z) := find (fun es => (q <? fst es)%N) c.

(* handleLeaderOffsetRequest *)
Definition answer (v : bool) (c : ecache) (log : list entry) (q : N) : Z :=
  match find_above c q with
  | Some (_, s) => if v then s - 1 else s
  | None => Z.of_nat (length log) - 1
  end.

(* a replica's life as far as its log and cache go *)
Inductive cop :=
| CAppend (es : list entry)      (* its own publishes as leader, or replicated entries *)
| CElect (e : N)
| CTruncate (t : nat).

Definition cstep (v : bool) (st : list entry * ecache) (o : cop) : list entry * ecache :=
  let '(log, c) := st in
  match o with
  | CAppend es => (log ++ es, assign_all c es (Z.of_nat (length log)))
  | CElect e => (log, elect_cache v c log e)
  | CTruncate t => (firstn t log, truncate_cache c (Z.of_nat t))
  end.

Definition crun (v : bool) (ops : list cop) : list entry * ecache := fold_left (cstep v) ops ([], []).
