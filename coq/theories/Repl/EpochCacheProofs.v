From LB Require Import Base.Prelude Meta.Fsm Repl.Cluster Repl.ClusterProofs Repl.EpochCache.
From Coq Require Import ZifyBool.
Open Scope Z_scope.

(* epochs strictly increasing along the cache *)
Fixpoint esorted (c : ecache) : Prop :=
  match c with
  | [] => True
  | (e, s) :: r => (forall e' s', In (e', s') r -> (e < e')%N /\ s <= s') /\ esorted r
  end.

Record CInv (log : list entry) (c : ecache) : Prop := {
  ci_sorted : esorted c;
  ci_bounds : forall e s, In (e, s) c -> 0 <= s <= Z.of_nat (length log) /\
                (forall i x, nth_error log i = Some x -> Z.of_nat i < s -> (ep x < e)%N) /\
                (forall i x, nth_error log i = Some x -> s <= Z.of_nat i -> (e <= ep x)%N);
  ci_complete : forall x, In x log -> exists s, In (ep x, s) c;
  ci_pos : forall e s, In (e, s) c -> (0 < e)%N
}.

Lemma esorted_snoc c e s : esorted c -> (forall e' s', In (e', s') c -> (e' < e)%N /\ s' <= s) -> esorted (c ++ [(e, s)]).
Proof.
  induction c as [|[e0 s0] r IH]; intros Hs Hlt; cbn [app esorted]; [split; [intros ? ? []|exact I]|].
  destruct Hs as [H1 H2]. split.
  - intros e' s' Hin. apply in_app_or in Hin. destruct Hin as [Hin|[[= <- <-]|[]]]; [apply H1; exact Hin|apply Hlt; left; reflexivity].
  - apply IH; [exact H2|]. intros e' s' Hin. apply Hlt. right. exact Hin.
Qed.

Lemma latest_in c : c <> [] -> In (latest_epoch c, latest_start c) c.
Proof.
  intros Hne. destruct (exists_last Hne) as (c' & [e s] & ->). unfold latest_epoch, latest_start. rewrite rev_app_distr. cbn. apply in_or_app. right. left. reflexivity.
Qed.

Lemma latest_cons x y t : latest_epoch (x :: y :: t) = latest_epoch (y :: t) /\ latest_start (x :: y :: t) = latest_start (y :: t).
Proof.
  unfold latest_epoch, latest_start. cbn [rev]. destruct (rev t ++ [y]) as [|z zs] eqn:E.
  - apply (f_equal (@length _)) in E. rewrite app_length in E. cbn in E. lia.
  - cbn [app]. split; reflexivity.
Qed.

Lemma esorted_latest c e s : esorted c -> In (e, s) c -> (e <= latest_epoch c)%N /\ s <= latest_start c.
Proof.
  induction c as [|[e0 s0] r IH]; intros Hs Hin; [destruct Hin|]. destruct Hs as [H1 H2].
  destruct r as [|y t].
  - destruct Hin as [[= <- <-]|[]]. unfold latest_epoch, latest_start. cbn. lia.
  - destruct (latest_cons (e0, s0) y t) as [-> ->]. destruct Hin as [[= <- <-]|Hin]; [|apply IH; assumption].
    pose proof (latest_in (y :: t) ltac:(discriminate)) as Hl. destruct (H1 _ _ Hl). lia.
Qed.

Lemma find_first {A} (p : A -> bool) l x : find p l = Some x -> exists pre post, l = pre ++ x :: post /\ (forall y, In y pre -> p y = false) /\ p x = true.
Proof.
  induction l as [|a t IH]; [discriminate|]. cbn [find]. destruct (p a) eqn:Ea.
  - intros [= <-]. exists [], t. split; [reflexivity|]. split; [intros y []|exact Ea].
  - intros H. destruct (IH H) as (pre & post & -> & Hpre & Hx). exists (a :: pre), post. split; [reflexivity|]. split; [intros y [<-|Hy]; [exact Ea|apply Hpre; exact Hy]|exact Hx].
Qed.

Lemma esorted_split pre e s post : esorted (pre ++ (e, s) :: post) -> forall e' s', In (e', s') pre -> (e' < e)%N.
Proof.
  induction pre as [|[e0 s0] r IH]; intros Hs e' s' Hin; [destruct Hin|]. cbn [app esorted] in Hs. destruct Hs as [H1 H2].
  destruct Hin as [[= <- <-]|Hin]; [apply (H1 e s); apply in_or_app; right; left; reflexivity|apply (IH H2 e' s' Hin)].
Qed.

(* the answer is the last offset whose entry has an epoch not above the requested one *)
Theorem answer_is_last_le log c q : CInv log c -> answer true c log q = last_le q log.
Proof.
  intros [Hs Hb Hc Hp]. unfold answer. destruct (find_above c q) as [[e s]|] eqn:Ef.
  - unfold find_above in Ef. destruct (find_first _ _ _ Ef) as (pre & post & Ec & Hpre & Hx). cbn [fst] in Hx.
    assert (Hin : In (e, s) c) by (rewrite Ec; apply in_or_app; right; left; reflexivity).
    destruct (Hb e s Hin) as ((H0 & Hlen) & Hlt & Hge).
    rewrite <- (firstn_skipn (Z.to_nat s) log). rewrite (last_le_split q).
    + rewrite firstn_length. lia.
    + intros x Hx1. apply In_nth_error in Hx1. destruct Hx1 as (i & Hi).
      assert (Hil : (i < Z.to_nat s)%nat). { assert (i < length (firstn (Z.to_nat s) log))%nat by (apply nth_error_Some; congruence). rewrite firstn_length in H. lia. }
      assert (HiL : nth_error log i = Some x). { rewrite <- (firstn_skipn (Z.to_nat s) log). rewrite nth_error_app1; [exact Hi|rewrite firstn_length; lia]. }
      pose proof (Hlt i x HiL ltac:(lia)) as Hxe. destruct (N.leb_spec (ep x) q) as [Hle|Hgt]; [exact Hle|exfalso].
      (* an epoch between q and e in the log has its own cache entry, which find would have returned *)
      destruct (Hc x (nth_error_In _ _ HiL)) as (s' & Hin').
      rewrite Ec in Hin'. apply in_app_or in Hin'. destruct Hin' as [Hin'|[[= E1 E2]|Hin']].
      * specialize (Hpre _ Hin'). cbn [fst] in Hpre. lia.
      * lia.
      * rewrite Ec in Hs. clear -Hs Hin' Hxe. induction pre as [|[a b] r IH]; cbn [app esorted] in Hs; [destruct Hs as [H1 _]; destruct (H1 _ _ Hin'); lia|apply IH; apply Hs].
    + intros x Hx1. destruct (in_skipn_inv _ _ _ Hx1) as (j & Hj & Hnj). pose proof (Hge j x Hnj ltac:(lia)). apply N.ltb_lt in Hx. lia.
  - (* no cached epoch above q: every entry is within q *)
    rewrite <- (app_nil_r log) at 2. rewrite (last_le_split q log []); [reflexivity| |intros x []].
    intros x Hx. destruct (Hc x Hx) as (s & Hin). unfold find_above in Ef. pose proof (find_none _ _ Ef _ Hin) as H. cbn [fst] in H.
    destruct (N.ltb_spec q (ep x)); [discriminate|assumption].
Qed.

(* ---- the cache stays exact along a replica's life ---- *)
Definition op_ok (st : list entry * ecache) (o : cop) : Prop :=
  let '(log, c) := st in
  match o with
  | CAppend es => mono (log ++ es) /\ forall x, In x es -> (latest_epoch c <= ep x)%N /\ (0 < ep x)%N
  | CElect e => (latest_epoch c < e)%N
  | CTruncate t => (t <= length log)%nat
  end.

Lemma cinv_latest log c x : CInv log c -> In x log -> (ep x <= latest_epoch c)%N.
Proof. intros HI Hx. destruct (ci_complete log c HI x Hx) as (s & Hin). apply (esorted_latest c _ s (ci_sorted log c HI) Hin). Qed.

Lemma cinv_start_le log c : CInv log c -> latest_start c <= Z.of_nat (length log).
Proof.
  intros HI. destruct c as [|y t] eqn:Ec; [unfold latest_start; cbn; lia|]. rewrite <- Ec in *.
  pose proof (latest_in c ltac:(rewrite Ec; discriminate)) as Hl. destruct (ci_bounds log c HI _ _ Hl) as ((_ & H) & _). exact H.
Qed.

Lemma append_one log c x : CInv log c -> (forall y, In y log -> (ep y <= ep x)%N) -> (latest_epoch c <= ep x)%N -> (0 < ep x)%N ->
  CInv (log ++ [x]) (assign c (ep x) (Z.of_nat (length log))).
Proof.
  intros HI Hmono Hlat Hpos. pose proof HI as [Hs Hb Hc Hp]. unfold assign. pose proof (cinv_start_le log c HI) as Hst.
  destruct (N.ltb_spec (latest_epoch c) (ep x)) as [Hlt|Hge]; destruct (Z.leb_spec (latest_start c) (Z.of_nat (length log))) as [Hle|Hgt]; cbn [andb]; try lia.
  - (* a new epoch: recorded at this entry's offset *)
    constructor.
    + apply esorted_snoc; [exact Hs|]. intros e' s' Hin. destruct (esorted_latest c e' s' Hs Hin). lia.
    + intros e s Hin. apply in_app_or in Hin. destruct Hin as [Hin|[[= <- <-]|[]]].
      * destruct (Hb e s Hin) as ((H0 & Hlen) & Hl & Hg). split; [rewrite app_length; cbn; lia|]. split.
        -- intros i y Hn Hi. apply (Hl i y); [|exact Hi]. rewrite nth_error_app1 in Hn by lia. exact Hn.
        -- intros i y Hn Hi. destruct (lt_dec i (length log)) as [Hil|Hil]; [rewrite nth_error_app1 in Hn by lia; apply (Hg i y Hn Hi)|].
           assert (i = length log). { assert (i < length (log ++ [x]))%nat by (apply nth_error_Some; congruence). rewrite app_length in H. cbn in H. lia. }
           subst i. rewrite nth_error_app2, Nat.sub_diag in Hn by lia. injection Hn as <-. destruct (esorted_latest c e s Hs Hin). lia.
      * split; [rewrite app_length; cbn; lia|]. split.
        -- intros i y Hn Hi. rewrite nth_error_app1 in Hn by lia. pose proof (cinv_latest log c y HI (nth_error_In _ _ Hn)). lia.
        -- intros i y Hn Hi. assert (i = length log). { assert (i < length (log ++ [x]))%nat by (apply nth_error_Some; congruence). rewrite app_length in H. cbn in H. lia. }
           subst i. rewrite nth_error_app2, Nat.sub_diag in Hn by lia. injection Hn as <-. lia.
    + intros y Hy. apply in_app_or in Hy. destruct Hy as [Hy|[<-|[]]]; [destruct (Hc y Hy) as (s & Hin); exists s; apply in_or_app; left; exact Hin|].
      exists (Z.of_nat (length log)). apply in_or_app. right. left. reflexivity.
    + intros e s Hin. apply in_app_or in Hin. destruct Hin as [Hin|[[= <- <-]|[]]]; [apply (Hp e s Hin)|exact Hpos].
  - (* the entry continues the latest epoch *)
    assert (Heq : ep x = latest_epoch c) by lia.
    assert (Hcne : c <> []) by (intros ->; unfold latest_epoch in Heq; cbn in Heq; lia).
    constructor; [exact Hs| | |exact Hp].
    + intros e s Hin. destruct (Hb e s Hin) as ((H0 & Hlen) & Hl & Hg). split; [rewrite app_length; cbn; lia|]. split.
      * intros i y Hn Hi. apply (Hl i y); [|exact Hi]. rewrite nth_error_app1 in Hn by lia. exact Hn.
      * intros i y Hn Hi. destruct (lt_dec i (length log)) as [Hil|Hil]; [rewrite nth_error_app1 in Hn by lia; apply (Hg i y Hn Hi)|].
        assert (i = length log). { assert (i < length (log ++ [x]))%nat by (apply nth_error_Some; congruence). rewrite app_length in H. cbn in H. lia. }
        subst i. rewrite nth_error_app2, Nat.sub_diag in Hn by lia. injection Hn as <-. destruct (esorted_latest c e s Hs Hin). lia.
    + intros y Hy. apply in_app_or in Hy. destruct Hy as [Hy|[<-|[]]]; [apply Hc; exact Hy|]. exists (latest_start c). rewrite Heq. apply latest_in. exact Hcne.
Qed.

Lemma append_all es : forall log c, CInv log c -> mono (log ++ es) -> (forall x, In x es -> (latest_epoch c <= ep x)%N /\ (0 < ep x)%N) ->
  CInv (log ++ es) (assign_all c es (Z.of_nat (length log))).
Proof.
  induction es as [|x r IH]; intros log c HI Hm Hes; cbn [assign_all]; [rewrite app_nil_r; exact HI|].
  assert (H1 : CInv (log ++ [x]) (assign c (ep x) (Z.of_nat (length log)))).
  { destruct (Hes x (or_introl eq_refl)) as [Hl Hp]. apply append_one; [exact HI| |exact Hl|exact Hp].
    intros y Hy. apply In_nth_error in Hy. destruct Hy as (i & Hi). apply (Hm i (length log)).
    - assert (i < length log)%nat by (apply nth_error_Some; congruence). lia.
    - rewrite nth_error_app1; [exact Hi|apply nth_error_Some; congruence].
    - rewrite nth_error_app2, Nat.sub_diag by lia. reflexivity. }
  replace (log ++ x :: r) with ((log ++ [x]) ++ r) by (rewrite <- app_assoc; reflexivity).
  replace (Z.of_nat (length log) + 1) with (Z.of_nat (length (log ++ [x]))) by (rewrite app_length; cbn; lia).
  apply IH; [exact H1|rewrite <- app_assoc; exact Hm|].
  intros y Hy. destruct (Hes y (or_intror Hy)) as [Hl Hp]. split; [|exact Hp].
  (* the latest cached epoch is now at most ep x <= ep y *)
  assert (Hxy : (ep x <= ep y)%N).
  { apply In_nth_error in Hy. destruct Hy as (j & Hj). apply (Hm (length log) (length log + 1 + j)%nat); [lia| |].
    - rewrite nth_error_app2, Nat.sub_diag by lia. reflexivity.
    - rewrite nth_error_app2 by lia. replace (length log + 1 + j - length log)%nat with (S j) by lia. exact Hj. }
  unfold assign. destruct ((latest_epoch c <? ep x)%N && (latest_start c <=? Z.of_nat (length log))); [|exact Hl].
  unfold latest_epoch. rewrite rev_app_distr. cbn. exact Hxy.
Qed.

Theorem cstep_cinv st o : CInv (fst st) (snd st) -> op_ok st o -> CInv (fst (cstep true st o)) (snd (cstep true st o)).
Proof.
  destruct st as [log c]. cbn [fst snd]. intros HI Hok. destruct o as [es|e|t]; cbn [cstep op_ok fst snd] in *.
  - destruct Hok as [Hm Hes]. apply append_all; assumption.
  - (* election: the epoch starts at the next offset *)
    pose proof HI as [Hs Hb Hc Hp]. unfold elect_cache, assign. pose proof (cinv_start_le log c HI) as Hst.
    destruct (N.ltb_spec (latest_epoch c) e) as [_|]; [|lia]. destruct (Z.leb_spec (latest_start c) (Z.of_nat (length log))) as [_|]; [|lia]. cbn [andb].
    constructor.
    + apply esorted_snoc; [exact Hs|]. intros e' s' Hin. destruct (esorted_latest c e' s' Hs Hin). lia.
    + intros e0 s0 Hin. apply in_app_or in Hin. destruct Hin as [Hin|[[= <- <-]|[]]]; [apply (Hb e0 s0 Hin)|].
      split; [lia|]. split.
      * intros i y Hn _. pose proof (cinv_latest log c y HI (nth_error_In _ _ Hn)). lia.
      * intros i y Hn Hi. assert (i < length log)%nat by (apply nth_error_Some; congruence). lia.
    + intros y Hy. destruct (Hc y Hy) as (s & Hin). exists s. apply in_or_app. left. exact Hin.
    + intros e0 s0 Hin. apply in_app_or in Hin. destruct Hin as [Hin|[[= <- <-]|[]]]; [apply (Hp e0 s0 Hin)|lia].
  - (* truncation: entries that start at or beyond the cut go *)
    pose proof HI as [Hs Hb Hc Hp]. unfold truncate_cache. constructor.
    + clear -Hs. induction c as [|[e0 s0] r IH]; [exact I|]. destruct Hs as [H1 H2]. cbn [filter snd]. destruct (s0 <? Z.of_nat t); [|apply IH; exact H2].
      cbn [esorted]. split; [intros e' s' Hin; apply filter_In in Hin; apply H1; apply Hin|apply IH; exact H2].
    + intros e s Hin. apply filter_In in Hin. destruct Hin as [Hin Hlt]. cbn [snd] in Hlt. destruct (Hb e s Hin) as ((H0 & Hlen) & Hl & Hg).
      split; [rewrite firstn_length; lia|]. split; intros i y Hn Hi.
      * apply (Hl i y); [apply (prefix_nth _ _ _ _ (prefix_firstn log t) Hn)|exact Hi].
      * apply (Hg i y); [apply (prefix_nth _ _ _ _ (prefix_firstn log t) Hn)|exact Hi].
    + intros y Hy. apply In_nth_error in Hy. destruct Hy as (i & Hi).
      assert (Hit : (i < t)%nat). { assert (i < length (firstn t log))%nat by (apply nth_error_Some; congruence). rewrite firstn_length in H. lia. }
      pose proof (prefix_nth _ _ _ _ (prefix_firstn log t) Hi) as HiL. destruct (Hc y (nth_error_In _ _ HiL)) as (s & Hin). exists s. apply filter_In. split; [exact Hin|]. cbn [snd].
      destruct (Hb _ _ Hin) as (_ & Hl & _). destruct (Z.ltb_spec s (Z.of_nat t)); [reflexivity|]. pose proof (Hl i y HiL ltac:(lia)). lia.
    + intros e s Hin. apply filter_In in Hin. apply (Hp e s). apply Hin.
Qed.

Lemma cinv_empty : CInv [] [].
Proof. constructor; [exact I|intros e s []|intros x []|intros e s []]. Qed.

(* the pinned code: a (1..), b takes over at epoch 5 and a learns the boundary by replication; a
   leads epoch 6; asked where epoch 4 ends it answers 2, the first offset of epoch 5 *)
Theorem pinned_answer_refuted :
  let '(log, c) := crun false [CElect 4; CAppend [(4, 0); (4, 1); (4, 2)]; CTruncate 2; CAppend [(5, 10); (5, 11)]; CElect 6]%N in
  answer false c log 4%N = 2 /\ last_le 4%N log = 1 /\
  (let '(log', c') := crun true [CElect 4; CAppend [(4, 0); (4, 1); (4, 2)]; CTruncate 2; CAppend [(5, 10); (5, 11)]; CElect 6]%N in answer true c' log' 4%N = 1).
Proof. vm_compute. repeat split; reflexivity. Qed.

Fixpoint ops_ok (st : list entry * ecache) (ops : list cop) : Prop :=
  match ops with
  | [] => True
  | o :: r => op_ok st o /\ ops_ok (cstep true st o) r
  end.

Lemma crun_cinv ops : forall st, CInv (fst st) (snd st) -> ops_ok st ops ->
  CInv (fst (fold_left (cstep true) ops st)) (snd (fold_left (cstep true) ops st)).
Proof.
  induction ops as [|o r IH]; intros st HI Hok; cbn [fold_left]; [exact HI|]. destruct Hok as [H1 H2]. apply IH; [apply cstep_cinv; assumption|exact H2].
Qed.

(* Along any life of a replica -- appends of its own or replicated entries, elections, truncations --
   its answer to "where does epoch q end" is the last offset whose entry has an epoch <= q. *)
Theorem cache_answer_exact ops q : ops_ok ([], []) ops ->
  answer true (snd (crun true ops)) (fst (crun true ops)) q = last_le q (fst (crun true ops)).
Proof. intros Hok. apply answer_is_last_le. unfold crun. apply crun_cinv; [apply cinv_empty|exact Hok]. Qed.
