(* C02 model, continued: two steps of the real code that Repl.Cluster's protocol does not have --
   the truncation fallback of truncateUncommitted (server/partition.go) and the time-based
   re-admission to the in-sync set (server/replicator.go, tick).

   A replica that learns of a new leader asks it where its own last epoch ends (KReconcile).  When
   that request fails -- three timeouts, or no responder at all because the new leader is already
   gone -- the replica cuts its log back to its own high watermark instead (truncateToHW) and
   starts following.  The step is kept apart from Repl.Cluster's so that the theorems there say
   exactly what they cover: histories in which every leader-epoch request is answered. *)
From LB Require Import Base.Prelude Meta.Fsm Repl.Cluster.
Open Scope Z_scope.

(* The replicator's tick adds a replica back to the in-sync set when it has been seen and has been
   at the log end at some moment within the last max-lag interval -- not when it is there now.
   KExpand (Repl.Cluster) is the expansion of a replica that holds the leader's whole log;
   FExpandBehind is the expansion the time rule allows: any reconciled replica. *)
Inductive fstep :=
| FBase (x : kstep)
| FFallback (r : N)      (* r learns of the current leader, gets no answer, truncates to its own HW *)
| FExpandBehind (r : N). (* r, reconciled, is added to the in-sync set wherever its log ends *)

Definition expand_behind (c : cluster) (r : N) : cluster :=
  mkCl (c_logs c) (c_hws c) (c_leader c) (c_epoch c) (c_isr c ++ [r]) (aset r (-1) (c_view c)) (c_synced c) (c_min_isr c) (c_committed c).

Definition fallback (c : cluster) (r : N) : cluster :=
  let c1 := set_log c r (firstn (Z.to_nat (hw_of c r + 1)) (log_of c r)) in
  mkCl (c_logs c1) (c_hws c1) (c_leader c1) (c_epoch c1) (c_isr c1) (c_view c1) (r :: c_synced c1) (c_min_isr c1) (c_committed c1).

Definition fstep_apply (c : cluster) (x : fstep) : option cluster :=
  match x with
  | FBase x => step true c x
  | FFallback r => if negb (mem r (c_synced c)) then Some (fallback c r) else None
  | FExpandBehind r => if negb (mem r (c_isr c)) && mem r (c_synced c) then Some (expand_behind c r) else None
  end.

Fixpoint frun (c : cluster) (xs : list fstep) : cluster :=
  match xs with
  | [] => c
  | x :: r => match fstep_apply c x with Some c' => frun c' r | None => frun c r end
  end.

(* a committed entry that the current leader does not hold at its offset *)
Definition committed_lost (c : cluster) : bool :=
  negb (leqb entry_eqb (firstn (length (c_committed c)) (log_of c (c_leader c))) (c_committed c)).

(* ---- correspondence ---- *)
Fixpoint check_fcluster (c : cluster) (xs : list (fstep * kobs)) (i : nat) : option nat :=
  match xs with
  | [] => None
  | (x, o) :: r =>
    match fstep_apply c x with
    | Some c' => if kobs_ok c' o then check_fcluster c' r (S i) else Some i
    | None => Some i
    end
  end.

Record fcase := mkFCase { fc_min_isr : nat; fc_epoch : N; fc_steps : list (fstep * kobs) }.

(* per history: where it leaves the model (if anywhere), and whether the model, too, ends in a
   state whose leader lacks a committed entry *)
Definition fcase_result (c : fcase) : option nat * bool :=
  let c0 := init_cluster [0; 1; 2]%N 0%N (fc_epoch c) (fc_min_isr c) in
  (check_fcluster c0 (fc_steps c) 0, committed_lost (frun c0 (map fst (fc_steps c)))).
