From LB Require Import Base.Prelude Meta.Fsm Meta.FsmProofs Repl.Cluster Repl.ClusterProofs Repl.Fallback.
From Coq Require Import ZifyBool.
Open Scope Z_scope.

(* histories without the fallback are Repl.Cluster's histories *)
Theorem frun_base xs : forall c, frun c (map FBase xs) = run true c xs.
Proof. induction xs as [|x r IH]; intros c; cbn [map frun run fstep_apply]; [reflexivity|]. destruct (step true c x); apply IH. Qed.

Lemma nth_agree_prefix {A} (a : list A) : forall b, (forall o e, nth_error a o = Some e -> nth_error b o = Some e) -> prefix a b.
Proof.
  induction a as [|x a IH]; intros b H; [exists b; reflexivity|].
  destruct b as [|y b]; [specialize (H 0%nat x eq_refl); discriminate|].
  pose proof (H 0%nat x eq_refl) as H0. cbn in H0. injection H0 as ->.
  destruct (IH b) as [t ->]; [intros o e Ho; apply (H (S o) e Ho)|]. exists t. reflexivity.
Qed.

Lemma nth_error_firstn_some {A} (n : nat) : forall (l : list A) o e, nth_error (firstn n l) o = Some e -> (o < n)%nat /\ nth_error l o = Some e.
Proof.
  induction n as [|n IH]; intros l o e H; [rewrite firstn_O in H; destruct o; discriminate|].
  destruct l as [|y t]; [destruct o; discriminate|]. destruct o as [|o]; [cbn in H; split; [lia|exact H]|].
  cbn [firstn nth_error] in H. destruct (IH t o e H) as [H1 H2]. split; [lia|exact H2].
Qed.

(* The fallback is harmless for a replica outside the in-sync set, and for one whose high watermark
   is up to date (it covers everything that was ever committed): the invariant of Repl.Cluster --
   and with it every C02 statement -- survives the step. *)
Theorem fallback_inv c r : Inv c -> ~ In r (c_synced c) ->
  (~ In r (c_isr c) \/ hw_of c r + 1 = Z.of_nat (length (c_committed c))) -> Inv (fallback c r).
Proof.
  intros [HA HB HC HD [HL1 HL2] HK HV HG HH0 HH1 HH2] Hns Hsafe.
  set (L := c_leader c) in *. set (r' := firstn (Z.to_nat (hw_of c r + 1)) (log_of c r)).
  set (c2 := fallback c r).
  assert (HrL : r <> L) by (intros ->; contradiction).
  assert (Hpr : prefix r' (log_of c r)) by apply prefix_firstn.
  assert (Hlogr : log_of c2 r = r') by (unfold c2, fallback; unfold log_of at 1; cbn [c_logs set_log]; rewrite alookup_aset_same; reflexivity).
  assert (Hlogo : forall x, x <> r -> log_of c2 x = log_of c x) by (intros x Hn; unfold c2, fallback, log_of; cbn [c_logs set_log]; rewrite alookup_aset_other by exact Hn; reflexivity).
  assert (HlogL : log_of c2 L = log_of c L) by (apply Hlogo; intros E; apply HrL; symmetry; exact E).
  assert (Hhw : forall x, hw_of c2 x = hw_of c x) by reflexivity.
  assert (Hview : forall x, view_of c2 x = view_of c x) by reflexivity.
  assert (Hcases : forall x, (x = r /\ log_of c2 x = r') \/ (x <> r /\ log_of c2 x = log_of c x)).
  { intros x. destruct (N.eq_dec x r) as [->|Hn]; [left; split; [reflexivity|exact Hlogr]|right; split; [exact Hn|apply Hlogo; exact Hn]]. }
  (* what is left of r's log is a prefix of what was committed, hence of the leader's log *)
  assert (Hrc : prefix r' (c_committed c)).
  { apply nth_agree_prefix. intros o e Ho. destruct (nth_error_firstn_some _ _ _ _ Ho) as [Hlt Hn]. apply (HH2 r o e); [lia|exact Hn]. }
  assert (HcL : prefix (c_committed c) (log_of c L)) by (apply HG; exact HL2).
  assert (HrL' : prefix r' (log_of c L)) by (apply (prefix_trans _ _ _ Hrc HcL)).
  constructor; change (c_leader c2) with L; change (c_epoch c2) with (c_epoch c); change (c_isr c2) with (c_isr c);
    change (c_synced c2) with (r :: c_synced c); change (c_committed c2) with (c_committed c).
  - intros x e Hin. destruct (Hcases x) as [[-> Hl]|[Hn Hl]]; rewrite Hl in Hin; [apply (HA r); apply (in_firstn_in _ _ _ Hin)|apply (HA x); exact Hin].
  - intros x. destruct (Hcases x) as [[-> Hl]|[Hn Hl]]; rewrite Hl; [apply (mono_prefix _ _ Hpr); apply HB|apply HB].
  - intros x o e Hn He. rewrite HlogL. destruct (Hcases x) as [[-> Hl]|[Hne Hl]]; rewrite Hl in Hn; [apply (HC r o e); [apply (prefix_nth _ _ _ _ Hpr Hn)|exact He]|apply (HC x o e Hn He)].
  - intros x Hx. rewrite HlogL. destruct (Hcases x) as [[-> Hl]|[Hne Hl]]; rewrite Hl; [exact HrL'|]. destruct Hx as [E|Hx]; [exfalso; apply Hne; symmetry; exact E|apply HD; exact Hx].
  - split; [right; exact HL1|exact HL2].
  - intros x. rewrite HlogL. destruct (Hcases x) as [[-> Hl]|[Hne Hl]]; rewrite Hl; [apply chain_prefix; exact HrL'|apply HK].
  - intros x Hx Hv. rewrite Hview in *. destruct (HV x Hx Hv) as [H1 H2]. destruct (Hcases x) as [[-> Hl]|[Hne Hl]]; [contradiction|]. rewrite Hl. split; [right; exact H1|exact H2].
  - intros x Hx. destruct (Hcases x) as [[-> Hl]|[Hne Hl]]; rewrite Hl; [|apply HG; exact Hx].
    destruct Hsafe as [Hout|Hup]; [contradiction|].
    (* r is in sync and its HW is up to date: it holds all of the committed prefix, and keeps it *)
    destruct (HG r Hx) as [t Ht]. unfold r'. rewrite Ht. replace (Z.to_nat (hw_of c r + 1)) with (length (c_committed c)) by lia.
    rewrite firstn_app, Nat.sub_diag, firstn_all, firstn_O, app_nil_r. apply prefix_refl.
  - intros x. rewrite Hhw. apply HH0.
  - intros x. rewrite Hhw. apply HH1.
  - intros x o e Ho Hn. rewrite Hhw in Ho. destruct (Hcases x) as [[-> Hl]|[Hne Hl]]; rewrite Hl in Hn; [apply (HH2 r o e Ho); apply (prefix_nth _ _ _ _ Hpr Hn)|apply (HH2 x); assumption].
Qed.

(* It is not harmless for an in-sync replica whose HW lags: message 0 is stored by all three
   replicas and committed by leader 0 when replica 2 reports it (replica 1's last response still
   carried the HW -1);
   replica 2 is elected and is gone before it answers; replica 1 cuts its log back to its HW,
   dropping the committed message, and -- still in the in-sync set -- is elected. *)
Theorem fallback_loses_committed :
  let c := frun (init_cluster [0; 1; 2]%N 0%N 4%N 1)
                [FBase (KPublish 0); FBase (KFetch 1 1); FBase (KFetch 2 1); FBase (KFetch 1 0); FBase (KFetch 2 0);
                 FBase (KElect 2 5); FFallback 1; FBase (KElect 1 6)]%N in
  c_committed c = [(4, 0)]%N /\ c_leader c = 1%N /\ log_of c 1%N = [] /\ committed_lost c = true.
Proof. vm_compute. repeat split; reflexivity. Qed.

(* ---- re-admission to the in-sync set ---- *)
Lemma prefix_of_prefixes {A} (a : list A) : forall b l, prefix a l -> prefix b l -> (length a <= length b)%nat -> prefix a b.
Proof.
  induction a as [|x a IH]; intros b l Ha Hb Hlen; [exists b; reflexivity|].
  destruct b as [|y b]; [cbn in Hlen; lia|]. destruct Ha as [ta ->]. destruct Hb as [tb Hb]. cbn in Hb. injection Hb as -> Hb.
  destruct (IH b (a ++ ta)) as [t ->]; [apply prefix_app|exists tb; exact Hb|cbn in Hlen; lia|]. exists t. reflexivity.
Qed.

(* Adding a reconciled replica that holds everything committed keeps the invariant (this is the
   rule "log end at or beyond the leader's HW"; KExpand's "holds the whole log" is a special case) *)
Theorem expand_behind_inv c r : Inv c -> In r (c_synced c) -> (length (c_committed c) <= length (log_of c r))%nat -> Inv (expand_behind c r).
Proof.
  intros [HA HB HC HD [HL1 HL2] HK HV HG HH0 HH1 HH2] Hr Hlen.
  assert (Hrc : prefix (c_committed c) (log_of c r)).
  { apply (prefix_of_prefixes _ _ (log_of c (c_leader c))); [apply HG; exact HL2|apply HD; exact Hr|exact Hlen]. }
  constructor; cbn [expand_behind c_leader c_epoch c_synced c_committed c_isr];
    change (log_of (expand_behind c r)) with (log_of c); change (hw_of (expand_behind c r)) with (hw_of c).
  - exact HA.
  - exact HB.
  - exact HC.
  - exact HD.
  - split; [exact HL1|apply in_or_app; left; exact HL2].
  - exact HK.
  - intros x Hx Hv. unfold view_of in Hv |- *. cbn [expand_behind c_view] in Hv |- *. destruct (N.eq_dec x r) as [->|Hne].
    + rewrite alookup_aset_same in Hv. lia.
    + rewrite alookup_aset_other in * by exact Hne. apply in_app_or in Hx. destruct Hx as [Hx|[E|[]]]; [apply (HV x Hx); exact Hv|exfalso; apply Hne; symmetry; exact E].
  - intros x Hx. apply in_app_or in Hx. destruct Hx as [Hx|[<-|[]]]; [apply HG; exact Hx|exact Hrc].
  - exact HH0.
  - exact HH1.
  - exact HH2.
Qed.

(* The time rule admits more: replica 2 is at the log end when the log holds one message, is
   removed from the in-sync set, two more messages are committed by the two that remain, and
   replica 2 -- seen, and "caught up" a moment ago -- is added again; elected, it leads without
   the two committed messages. *)
Theorem expansion_by_time_loses_committed :
  let c := frun (init_cluster [0; 1; 2]%N 0%N 4%N 1)
                [FBase (KPublish 0); FBase (KFetch 2 1); FBase (KFetch 2 0); FBase (KShrink 2);
                 FBase (KPublish 1); FBase (KPublish 2); FBase (KFetch 1 3); FBase (KFetch 1 0);
                 FExpandBehind 2; FBase (KElect 2 5)]%N in
  c_committed c = [(4, 0); (4, 1); (4, 2)]%N /\ c_leader c = 2%N /\ log_of c 2%N = [(4, 0)]%N /\ committed_lost c = true.
Proof. vm_compute. repeat split; reflexivity. Qed.

(* ---- the two steps, guarded ----
   A history of the extended step relation in which every fallback is taken by a replica outside
   the in-sync set or with a current HW, and every re-admission is of a replica that holds
   everything committed, keeps the invariant: the two refuted steps are the only ways out. *)
Definition step_guard (c : cluster) (x : fstep) : Prop :=
  match x with
  | FBase _ => True
  | FFallback r => ~ In r (c_isr c) \/ hw_of c r + 1 = Z.of_nat (length (c_committed c))
  | FExpandBehind r => (length (c_committed c) <= length (log_of c r))%nat
  end.

Fixpoint guarded (c : cluster) (xs : list fstep) : Prop :=
  match xs with
  | [] => True
  | x :: r => match fstep_apply c x with
              | Some c' => step_guard c x /\ guarded c' r
              | None => guarded c r
              end
  end.

Theorem fstep_inv c x c' : Inv c -> step_guard c x -> fstep_apply c x = Some c' -> Inv c'.
Proof.
  intros HI Hg H. destruct x as [x|r|r]; cbn [fstep_apply step_guard] in *.
  - apply (step_inv c x c' HI H).
  - destruct (mem r (c_synced c)) eqn:Em; [discriminate|]. injection H as <-. apply fallback_inv; [exact HI| |exact Hg].
    intros Hin. apply mem_in in Hin. congruence.
  - destruct (mem r (c_isr c)); [discriminate|]. destruct (mem r (c_synced c)) eqn:Em; [|discriminate]. injection H as <-.
    apply expand_behind_inv; [exact HI|apply mem_in; exact Em|exact Hg].
Qed.

Theorem guarded_histories_keep_the_invariant xs : forall c, Inv c -> guarded c xs -> Inv (frun c xs).
Proof.
  induction xs as [|x r IH]; intros c HI Hg; cbn [frun guarded] in *; [exact HI|].
  destruct (fstep_apply c x) as [c'|] eqn:E; [|apply IH; assumption].
  destruct Hg as [Hg1 Hg2]. apply IH; [apply (fstep_inv c x c' HI Hg1 E)|exact Hg2].
Qed.
