package commitlog

// C03 driver: concurrent appenders, a high-watermark mover, read-only toggles and committed readers
// on one real commit log, with an online monitor. Each reader checks, for every message it is
// handed: offset <= HighWatermark() sampled after the read, offsets consecutive from its
// position, content equal to what was appended. At the end the HW is moved to the log end and
// every reader must receive everything up to it (a reader that stays blocked has lost a wake-up).

import (
	"context"
	"fmt"
	"os"
	"path/filepath"
	"runtime"
	"sync"
	"sync/atomic"
	"testing"
	"time"

	pkgErrors "github.com/pkg/errors"
)

func TestVerifC03(t *testing.T) {
	out := vOpenOut()
	defer out.close()
	stats := map[string]int{}
	var statsMu sync.Mutex
	r := vNewRand(vSeed() + 3)
	rounds := vEnvInt("VERIF_N", 30)
	for round := 0; round < rounds; round++ {
		dir := filepath.Join(os.Getenv("VERIF_WORK"), fmt.Sprintf("c03_%d", round))
		os.RemoveAll(dir)
		maxb := int64([]int{100, 200, 400, 2000}[r.intn(4)])
		li, err := New(Options{Path: dir, Name: "c03", MaxSegmentBytes: maxb, CleanerInterval: time.Hour, HWCheckpointInterval: time.Hour})
		if err != nil {
			t.Fatal(err)
		}
		l := li.(*commitLog)
		total := 60 + r.intn(200)
		nreaders := 2 + r.intn(5)
		var appended int64 = -1 // newest appended offset (atomic)
		var hwMonotone int64 = -1
		var violMu sync.Mutex
		viol := ""
		setViol := func(sig, s string) {
			violMu.Lock()
			if viol == "" {
				viol = sig + "|" + s
			}
			violMu.Unlock()
		}
		bodyOf := func(off int64) string { return fmt.Sprintf("m%06d", off) }
		var wg sync.WaitGroup
		// pre-fill a little in some rounds, and start some readers on an empty log
		pre := 0
		if r.intn(3) > 0 {
			pre = r.intn(10)
		}
		ts := int64(1)
		appendN := func(n int) {
			var msgs []*Message
			base := atomic.LoadInt64(&appended) + 1
			for i := 0; i < n; i++ {
				ts++
				msgs = append(msgs, &Message{MagicByte: 1, Timestamp: ts, LeaderEpoch: 1, Offset: -1, Value: []byte(bodyOf(base + int64(i)))})
			}
			offs, err := l.Append(msgs)
			if err != nil {
				if err == ErrCommitLogReadonly {
					return
				}
				setViol("append-error", err.Error())
				return
			}
			atomic.StoreInt64(&appended, offs[len(offs)-1])
		}
		if pre > 0 {
			appendN(pre)
			l.SetHighWatermark(int64(r.intn(pre)))
		}
		ctx, cancel := context.WithCancel(context.Background())
		// appender
		stopAppend := make(chan struct{})
		wg.Add(1)
		go func(seed uint64) {
			defer wg.Done()
			rr := vNewRand(seed)
			for atomic.LoadInt64(&appended) < int64(total) {
				select {
				case <-stopAppend:
					return
				default:
				}
				appendN(1 + rr.intn(4))
				if rr.intn(4) == 0 {
					time.Sleep(time.Duration(rr.intn(300)) * time.Microsecond)
				}
			}
		}(r.next())
		// HW movers (any step size, any position relative to segment boundaries). On a leader the
		// message loop (RF=1 fast path) and the commit loop both move the HW, so there are 1-3 of them;
		// each checks that the HW it set is in force when SetHighWatermark returns.
		nmovers := 1 + r.intn(3)
		for mv := 0; mv < nmovers; mv++ {
			wg.Add(1)
			go func(seed uint64) {
				defer wg.Done()
				rr := vNewRand(seed)
				for {
					select {
					case <-stopAppend:
						return
					default:
					}
					a := atomic.LoadInt64(&appended)
					if a >= 0 {
						h := int64(rr.intn(int(a) + 1))
						l.SetHighWatermark(h)
						if now := l.HighWatermark(); now < h {
							setViol("hw-below-set", fmt.Sprintf("SetHighWatermark(%d) returned and HighWatermark() is %d", h, now))
						}
					}
					if rr.intn(3) > 0 {
						time.Sleep(time.Duration(rr.intn(400)) * time.Microsecond)
					}
				}
			}(r.next())
		}
		// one sampler: the HW never goes back
		wg.Add(1)
		go func() {
			defer wg.Done()
			for {
				select {
				case <-stopAppend:
					return
				default:
				}
				now := l.HighWatermark()
				if now < hwMonotone {
					setViol("hw-backwards", fmt.Sprintf("HighWatermark() went from %d to %d", hwMonotone, now))
				}
				hwMonotone = now
			}
		}()
		statsMu.Lock()
		stats[fmt.Sprintf("hw-movers=%d", nmovers)]++
		statsMu.Unlock()
		// readers
		type rdRes struct {
			start, first, last int64
			count              int
		}
		results := make([]rdRes, nreaders)
		lastOf := func(i int) int64 { return atomic.LoadInt64(&results[i].last) }
		roSeen := make([]int32, nreaders)
		var roPhase, roGen, roTurn int32
		var rwg sync.WaitGroup
		for i := 0; i < nreaders; i++ {
			start := int64(r.intn(pre + 6))
			if r.intn(4) == 0 {
				start = int64(total/2 + r.intn(10)) // far beyond the HW at creation
			}
			hwBefore := l.HighWatermark()
			rd, err := l.NewReader(start, false)
			hwAfter := l.HighWatermark()
			if err != nil {
				setViol("reader-create", err.Error())
				continue
			}
			// position per the commit log's (tested) contract: at the requested offset, or -- beyond the HW,
			// or on an empty log -- at hw+1 for the HW in force when the reader was created. The HW movers
			// run meanwhile, so that HW lies between the two samples: the first delivery is judged against
			// the window, everything after it must be consecutive.
			expect := int64(-1) // unknown until the first delivery
			lo, hi := hwBefore+1, hwAfter+1
			if start <= hwBefore && pre > 0 {
				lo, hi = start, start
			} else if start <= hwAfter && pre > 0 {
				hi = start // created while the HW passed the requested offset: either rule
			}
			results[i] = rdRes{start: start, first: -1, last: -2}
			rwg.Add(1)
			go func(i int, rd *Reader, expect, lo, hi int64) {
				defer rwg.Done()
				defer func() {
					if x := recover(); x != nil {
						setViol("reader-panic", fmt.Sprintf("committed reader %d (last delivered %d, high watermark %d) panicked: %v", i, lastOf(i), l.HighWatermark(), x))
					}
				}()
				hb := make([]byte, 28)
				for {
					gen0, phase0 := atomic.LoadInt32(&roGen), atomic.LoadInt32(&roPhase)
					m, off, _, _, err := rd.ReadMessage(ctx, hb)
					if err != nil {
						if (err == ErrCommitLogReadonly || pkgErrors.Cause(err) == ErrCommitLogReadonly) && ctx.Err() == nil {
							// the end of a read-only log: everything up to the log end has been delivered
							// (nothing is appended while the phase that sets read-only waits for this report)
							// judged only when the whole call fell into one read-only phase (nothing is appended then)
							if leo := l.NewestOffset(); atomic.LoadInt64(&results[i].last) < leo && phase0 == 1 && atomic.LoadInt32(&roPhase) == 1 && atomic.LoadInt32(&roGen) == gen0 {
								setViol("readonly-end-before-delivery", fmt.Sprintf("reader %d was told the read-only log has ended after offset %d; the log ends at %d and the high watermark is %d", i, results[i].last, leo, l.HighWatermark()))
							}
							turn := atomic.LoadInt32(&roTurn)
							atomic.AddInt32(&roSeen[i], 1)
							// during the read-only phase wait at the gate, so that the next read starts at
							// the very moment the driver moves the HW
							for n := 0; atomic.LoadInt32(&roPhase) == 1 && atomic.LoadInt32(&roTurn) == turn && ctx.Err() == nil; n++ {
								if n%500 == 499 {
									runtime.Gosched()
								}
							}
							if atomic.LoadInt32(&roPhase) != 1 {
								time.Sleep(200 * time.Microsecond)
							}
							continue
						}
						return
					}
					hwNow := l.HighWatermark()
					if off > hwNow {
						setViol("above-hw", fmt.Sprintf("reader %d was handed offset %d while the high watermark is %d", i, off, hwNow))
					}
					if results[i].last == -2 {
						if off < lo || off > hi {
							setViol("first-delivery", fmt.Sprintf("reader %d created at offset %d while the high watermark was between %d and %d delivered offset %d first", i, results[i].start, lo-1, hi-1, off))
						}
					} else if off != results[i].last+1 {
						setViol("order", fmt.Sprintf("reader %d (start %d) got offset %d after %d", i, results[i].start, off, results[i].last))
					}
					if string(m.Value()) != bodyOf(off) {
						setViol("content", fmt.Sprintf("reader %d: offset %d carries %q", i, off, m.Value()))
					}
					if results[i].first < 0 {
						results[i].first = off
					}
					atomic.StoreInt64(&results[i].last, off)
					results[i].count++
				}
			}(i, rd, expect, lo, hi)
		}
		// let it run, then quiesce
		deadline := time.Now().Add(3 * time.Second)
		for atomic.LoadInt64(&appended) < int64(total) && time.Now().Before(deadline) {
			time.Sleep(time.Millisecond)
		}
		close(stopAppend)
		wg.Wait()
		end := l.NewestOffset()
		l.SetHighWatermark(end)
		// every reader must now receive everything up to the end
		deadline = time.Now().Add(5 * time.Second)
		for time.Now().Before(deadline) {
			all := true
			for i := range results {
				if lastOf(i) < end {
					all = false
				}
			}
			if all {
				break
			}
			time.Sleep(time.Millisecond)
		}
		for i := range results {
			if lastOf(i) < end {
				setViol("lost-wakeup", fmt.Sprintf("reader %d (start %d) stopped at offset %d although the high watermark covers %d", i, results[i].start, lastOf(i), end))
			}
		}
		// lockstep phase: every reader is caught up and about to park (or parked) on the current
		// HW; one message is appended and the HW moved onto it, racing with the readers'
		// registration as waiters.  This HW change is the only one until every reader has the
		// message, so a reader that registers against the old HW after the change stays blocked.
		l.SetReadonly(false)
		steps := vEnvInt("VERIF_STEPS", 400)
		violMu.Lock()
		clean := viol == ""
		violMu.Unlock()
		for step := 0; step < steps && clean; step++ {
			appendN(1)
			end = l.NewestOffset()
			for spin := r.intn(200); spin > 0; spin-- {
				_ = atomic.LoadInt64(&appended)
			}
			l.SetHighWatermark(end)
			deadline = time.Now().Add(2 * time.Second)
			got := false
			for !got && time.Now().Before(deadline) {
				got = true
				for i := range results {
					if atomic.LoadInt64(&results[i].last) < end {
						got = false
					}
				}
				if !got && time.Since(deadline.Add(-2*time.Second)) > 200*time.Microsecond {
					time.Sleep(50 * time.Microsecond)
				}
			}
			if !got {
				for i := range results {
					if lastOf(i) < end {
						setViol("lost-wakeup", fmt.Sprintf("reader %d had consumed up to %d and was waiting for the high watermark; it moved to %d (the only change) and the reader was not woken", i, lastOf(i), end))
					}
				}
				clean = false
			}
			statsMu.Lock()
			stats["lockstep-hw-moves"]++
			statsMu.Unlock()
		}
		// burst phase: several SetHighWatermark calls with different values are released at the same
		// moment (they all wait for the log's lock, which the driver holds, as an append or a clean
		// would); whatever their order, the HW ends at the largest value and never goes back
		bursts := vEnvInt("VERIF_BURSTS", 40)
		violMu.Lock()
		clean = viol == ""
		violMu.Unlock()
		for b := 0; b < bursts && clean; b++ {
			appendN(4)
			end = l.NewestOffset()
			base := l.HighWatermark()
			var bw sync.WaitGroup
			l.mu.Lock()
			for k := int64(1); k <= 4; k++ {
				bw.Add(1)
				go func(h int64) {
					defer bw.Done()
					l.SetHighWatermark(h)
					if now := l.HighWatermark(); now < h {
						setViol("hw-below-set", fmt.Sprintf("SetHighWatermark(%d) returned and HighWatermark() is %d", h, now))
					}
				}(base + k)
			}
			time.Sleep(200 * time.Microsecond) // let them reach the lock
			l.mu.Unlock()
			bw.Wait()
			if now := l.HighWatermark(); now != base+4 {
				setViol("hw-backwards", fmt.Sprintf("four concurrent SetHighWatermark calls with %d..%d: the high watermark ends at %d", base+1, base+4, now))
			}
			l.SetHighWatermark(end)
			// readers catch up before the next burst
			deadline = time.Now().Add(2 * time.Second)
			for time.Now().Before(deadline) {
				all := true
				for i := range results {
					if lastOf(i) < end {
						all = false
					}
				}
				if all {
					break
				}
				time.Sleep(50 * time.Microsecond)
			}
			violMu.Lock()
			clean = viol == ""
			violMu.Unlock()
			statsMu.Lock()
			stats["hw-bursts"]++
			statsMu.Unlock()
		}
		// read-only phase: the log is set read-only while the HW is behind the log end and every
		// reader has consumed up to the HW; then the HW moves to the end, racing with the readers'
		// waits.  Each reader must deliver the rest before it is told that the log has ended.
		rosteps := vEnvInt("VERIF_RO_STEPS", 60)
		violMu.Lock()
		clean = viol == ""
		violMu.Unlock()
		for step := 0; step < rosteps && clean; step++ {
			atomic.AddInt32(&roGen, 1) // readers are parked (first step) or wait at the gate: none is inside a read
			l.SetReadonly(false)
			hwOld := l.HighWatermark()
			appendN(2 + r.intn(3))
			end = l.NewestOffset()
			// readers are all at hwOld (previous step ended with everything delivered)
			l.SetReadonly(true)
			for i := range roSeen {
				atomic.StoreInt32(&roSeen[i], 0)
			}
			atomic.StoreInt32(&roPhase, 1)
			atomic.AddInt32(&roTurn, 1) // readers waiting at the gate start reading now
			for start, d := time.Now(), time.Duration(step%40)*50*time.Nanosecond; time.Since(start) < d; {
			}
			// the HW reaches the end in single steps with short random pauses, so that readers are
			// between "consumed up to the HW I saw" and "wait for a change" when the next step lands
			if step%2 == 0 {
				l.SetHighWatermark(end)
			} else {
				for h := hwOld + 1; h <= end; h++ {
					for spin := r.intn(300); spin > 0; spin-- {
						_ = atomic.LoadInt64(&appended)
					}
					l.SetHighWatermark(h)
				}
			}
			deadline = time.Now().Add(2 * time.Second)
			got := false
			for !got && time.Now().Before(deadline) {
				got = true
				for i := range results {
					if atomic.LoadInt64(&results[i].last) < end || atomic.LoadInt32(&roSeen[i]) == 0 {
						got = false
					}
				}
				if !got {
					time.Sleep(50 * time.Microsecond)
				}
			}
			violMu.Lock()
			clean = viol == ""
			violMu.Unlock()
			if !got && clean {
				for i := range results {
					if atomic.LoadInt64(&results[i].last) < end {
						setViol("lost-wakeup", fmt.Sprintf("read-only log, reader %d had consumed up to %d (HW %d); the HW moved to the log end %d and the reader delivered nothing more", i, lastOf(i), hwOld, end))
					}
				}
				clean = false
			}
			statsMu.Lock()
			stats["readonly-hw-moves"]++
			statsMu.Unlock()
		}
		atomic.StoreInt32(&roPhase, 0)
		atomic.AddInt32(&roTurn, 1)
		l.SetReadonly(false)
		cancel()
		rwg.Wait()
		l.Close()
		os.RemoveAll(dir)
		delivered := 0
		for _, x := range results {
			delivered += x.count
		}
		statsMu.Lock()
		stats["rounds"]++
		stats["messages"] += int(end + 1)
		stats["deliveries"] += delivered
		stats["readers"] += nreaders
		statsMu.Unlock()
		cj := vM{"k": "stress", "round": round, "maxb": maxb, "messages": end + 1, "readers": nreaders, "deliveries": delivered}
		if viol != "" {
			sig := viol[:len(viol)-len(viol[indexByte(viol, '|'):])]
			out.emit(vM{"k": "violation", "sig": sig, "what": viol[indexByte(viol, '|')+1:], "case": cj})
		}
		out.emit(cj)
	}
	out.emit(vM{"k": "stat", "dist": stats})
}

func indexByte(s string, c byte) int {
	for i := 0; i < len(s); i++ {
		if s[i] == c {
			return i
		}
	}
	return len(s)
}
