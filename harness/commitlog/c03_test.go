package commitlog

// C03 driver: concurrent appenders, a high-watermark mover, read-only toggles and committed readers
// on one real commit log, with an online monitor. Each reader checks, for every message it is
// handed: offset <= HighWatermark() sampled after the read, offsets consecutive from its
// position, content equal to what was appended. At the end the HW is moved to the log end and
// every reader must receive everything up to it (a reader that stays blocked has lost a wake-up).

import (
	"context"
	"fmt"
	"os"
	"path/filepath"
	"sync"
	"sync/atomic"
	"testing"
	"time"
)

func TestVerifC03(t *testing.T) {
	out := vOpenOut()
	defer out.close()
	stats := map[string]int{}
	var statsMu sync.Mutex
	r := vNewRand(vSeed() + 3)
	rounds := vEnvInt("VERIF_N", 30)
	for round := 0; round < rounds; round++ {
		dir := filepath.Join(os.Getenv("VERIF_WORK"), fmt.Sprintf("c03_%d", round))
		os.RemoveAll(dir)
		maxb := int64([]int{100, 200, 400, 2000}[r.intn(4)])
		li, err := New(Options{Path: dir, Name: "c03", MaxSegmentBytes: maxb, CleanerInterval: time.Hour, HWCheckpointInterval: time.Hour})
		if err != nil {
			t.Fatal(err)
		}
		l := li.(*commitLog)
		total := 60 + r.intn(200)
		nreaders := 2 + r.intn(5)
		var appended int64 = -1 // newest appended offset (atomic)
		var hwMonotone int64 = -1
		var violMu sync.Mutex
		viol := ""
		setViol := func(sig, s string) {
			violMu.Lock()
			if viol == "" {
				viol = sig + "|" + s
			}
			violMu.Unlock()
		}
		bodyOf := func(off int64) string { return fmt.Sprintf("m%06d", off) }
		var wg sync.WaitGroup
		// pre-fill a little in some rounds, and start some readers on an empty log
		pre := 0
		if r.intn(3) > 0 {
			pre = r.intn(10)
		}
		ts := int64(1)
		appendN := func(n int) {
			var msgs []*Message
			base := atomic.LoadInt64(&appended) + 1
			for i := 0; i < n; i++ {
				ts++
				msgs = append(msgs, &Message{MagicByte: 1, Timestamp: ts, LeaderEpoch: 1, Offset: -1, Value: []byte(bodyOf(base + int64(i)))})
			}
			offs, err := l.Append(msgs)
			if err != nil {
				if err == ErrCommitLogReadonly {
					return
				}
				setViol("append-error", err.Error())
				return
			}
			atomic.StoreInt64(&appended, offs[len(offs)-1])
		}
		if pre > 0 {
			appendN(pre)
			l.SetHighWatermark(int64(r.intn(pre)))
		}
		ctx, cancel := context.WithCancel(context.Background())
		// appender
		stopAppend := make(chan struct{})
		wg.Add(1)
		go func(seed uint64) {
			defer wg.Done()
			rr := vNewRand(seed)
			for atomic.LoadInt64(&appended) < int64(total) {
				select {
				case <-stopAppend:
					return
				default:
				}
				appendN(1 + rr.intn(4))
				if rr.intn(4) == 0 {
					time.Sleep(time.Duration(rr.intn(300)) * time.Microsecond)
				}
			}
		}(r.next())
		// HW mover (any step size, any position relative to segment boundaries)
		wg.Add(1)
		go func(seed uint64) {
			defer wg.Done()
			rr := vNewRand(seed)
			for {
				select {
				case <-stopAppend:
					return
				default:
				}
				a := atomic.LoadInt64(&appended)
				if a >= 0 {
					h := int64(rr.intn(int(a) + 1))
					l.SetHighWatermark(h)
				}
				now := l.HighWatermark()
				if now < atomic.LoadInt64(&hwMonotone) {
					setViol("hw-backwards", fmt.Sprintf("HighWatermark() went from %d to %d", hwMonotone, now))
				}
				atomic.StoreInt64(&hwMonotone, now)
				time.Sleep(time.Duration(rr.intn(400)) * time.Microsecond)
			}
		}(r.next())
		// readers
		type rdRes struct {
			start, first, last int64
			count              int
		}
		results := make([]rdRes, nreaders)
		var rwg sync.WaitGroup
		for i := 0; i < nreaders; i++ {
			start := int64(r.intn(pre + 6))
			if r.intn(4) == 0 {
				start = int64(total/2 + r.intn(10)) // far beyond the HW at creation
			}
			hwAtCreation := l.HighWatermark()
			rd, err := l.NewReader(start, false)
			if err != nil {
				setViol("reader-create", err.Error())
				continue
			}
			// position per the commit log's (tested) contract: beyond the HW, or on an empty log, it resumes at hw+1
			expect := start
			if start > hwAtCreation || pre == 0 {
				expect = hwAtCreation + 1
			}
			results[i] = rdRes{start: start, first: -1, last: expect - 1}
			rwg.Add(1)
			go func(i int, rd *Reader, expect int64) {
				defer rwg.Done()
				hb := make([]byte, 28)
				for {
					m, off, _, _, err := rd.ReadMessage(ctx, hb)
					if err != nil {
						return
					}
					hwNow := l.HighWatermark()
					if off > hwNow {
						setViol("above-hw", fmt.Sprintf("reader %d was handed offset %d while the high watermark is %d", i, off, hwNow))
					}
					if off != results[i].last+1 {
						setViol("order", fmt.Sprintf("reader %d (start %d) got offset %d after %d", i, results[i].start, off, results[i].last))
					}
					if string(m.Value()) != bodyOf(off) {
						setViol("content", fmt.Sprintf("reader %d: offset %d carries %q", i, off, m.Value()))
					}
					if results[i].first < 0 {
						results[i].first = off
					}
					atomic.StoreInt64(&results[i].last, off)
					results[i].count++
				}
			}(i, rd, expect)
		}
		// let it run, then quiesce
		deadline := time.Now().Add(3 * time.Second)
		for atomic.LoadInt64(&appended) < int64(total) && time.Now().Before(deadline) {
			time.Sleep(time.Millisecond)
		}
		close(stopAppend)
		wg.Wait()
		end := l.NewestOffset()
		l.SetHighWatermark(end)
		// every reader must now receive everything up to the end
		deadline = time.Now().Add(5 * time.Second)
		for time.Now().Before(deadline) {
			all := true
			for i := range results {
				if results[i].last < end {
					all = false
				}
			}
			if all {
				break
			}
			time.Sleep(time.Millisecond)
		}
		for i := range results {
			if results[i].last < end {
				setViol("lost-wakeup", fmt.Sprintf("reader %d (start %d) stopped at offset %d although the high watermark covers %d", i, results[i].start, results[i].last, end))
			}
		}
		// lockstep phase: every reader is caught up and about to park (or parked) on the current
		// HW; one message is appended and the HW moved onto it, racing with the readers'
		// registration as waiters.  This HW change is the only one until every reader has the
		// message, so a reader that registers against the old HW after the change stays blocked.
		l.SetReadonly(false)
		steps := vEnvInt("VERIF_STEPS", 400)
		violMu.Lock()
		clean := viol == ""
		violMu.Unlock()
		for step := 0; step < steps && clean; step++ {
			appendN(1)
			end = l.NewestOffset()
			for spin := r.intn(200); spin > 0; spin-- {
				_ = atomic.LoadInt64(&appended)
			}
			l.SetHighWatermark(end)
			deadline = time.Now().Add(2 * time.Second)
			got := false
			for !got && time.Now().Before(deadline) {
				got = true
				for i := range results {
					if atomic.LoadInt64(&results[i].last) < end {
						got = false
					}
				}
				if !got && time.Since(deadline.Add(-2*time.Second)) > 200*time.Microsecond {
					time.Sleep(50 * time.Microsecond)
				}
			}
			if !got {
				for i := range results {
					if results[i].last < end {
						setViol("lost-wakeup", fmt.Sprintf("reader %d had consumed up to %d and was waiting for the high watermark; it moved to %d (the only change) and the reader was not woken", i, results[i].last, end))
					}
				}
				clean = false
			}
			statsMu.Lock()
			stats["lockstep-hw-moves"]++
			statsMu.Unlock()
		}
		cancel()
		rwg.Wait()
		l.Close()
		os.RemoveAll(dir)
		delivered := 0
		for _, x := range results {
			delivered += x.count
		}
		statsMu.Lock()
		stats["rounds"]++
		stats["messages"] += int(end + 1)
		stats["deliveries"] += delivered
		stats["readers"] += nreaders
		statsMu.Unlock()
		cj := vM{"k": "stress", "round": round, "maxb": maxb, "messages": end + 1, "readers": nreaders, "deliveries": delivered}
		if viol != "" {
			sig := viol[:len(viol)-len(viol[indexByte(viol, '|'):])]
			out.emit(vM{"k": "violation", "sig": sig, "what": viol[indexByte(viol, '|')+1:], "case": cj})
		}
		out.emit(cj)
	}
	out.emit(vM{"k": "stat", "dist": stats})
}

func indexByte(s string, c byte) int {
	for i := 0; i < len(s); i++ {
		if s[i] == c {
			return i
		}
	}
	return len(s)
}
