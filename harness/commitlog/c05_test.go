//go:build verif

package commitlog

// C05 driver: crash the partition log between any two file-system effects and reopen it.
//
// A program (a generated workload of appends, rolls, truncations, retention cleans, compactions, HW
// checkpoints and epoch changes) is first run without a crash, counting the crash points it passes.
// Then it is replayed once per crash-point hit: the replay stops at that hit (the hook panics with a
// value that unwinds to the driver; the log object is abandoned exactly as a killed process would
// leave it: nothing is closed, flushed or shrunk), the files are recorded as they are, the
// directory is reopened with commitlog.New, and the recovered log is judged by the property's own
// words; the interrupted operation is then repeated and the workload continues on the recovered log
// under the full read-back oracle of the C01 driver.
//
// For a sample of the replays a child process runs the same program and is killed with SIGKILL at the
// same hit; the files it leaves must equal the files of the in-process replay (this is what justifies
// the in-process crash model).

import (
	"bytes"
	"context"
	"encoding/binary"
	"fmt"
	"os"
	"os/exec"
	"path/filepath"
	"sort"
	"strings"
	"syscall"
	"testing"
	"time"
)

type vC05Crash struct{ point string }

func (vC05Crash) vPassThrough() {}

type vC05Hook struct {
	hits    int
	crashAt int // 0 = never
	kill    bool
	seq     []string
	// torn-write replays: the log file the last append:log-written point followed, and its size
	// before and after that write
	dir                string
	sizes              map[string]int64
	grown              string
	grownFrom, grownTo int64
}

func (h *vC05Hook) logSizes() map[string]int64 {
	m := map[string]int64{}
	des, _ := os.ReadDir(h.dir)
	for _, de := range des {
		if strings.Contains(de.Name(), ".log") {
			if fi, err := de.Info(); err == nil {
				m[de.Name()] = fi.Size()
			}
		}
	}
	return m
}

func (h *vC05Hook) install() {
	CrashHook = func(p string) {
		if strings.HasPrefix(p, "reader:") {
			return // synchronisation points of the tail-reader driver (tailwait_test.go), not file-system effects
		}
		h.hits++
		h.seq = append(h.seq, p)
		if h.dir != "" {
			now := h.logSizes()
			if p == "append:log-written" {
				h.grown = ""
				for name, sz := range now {
					if sz > h.sizes[name] {
						h.grown, h.grownFrom, h.grownTo = name, h.sizes[name], sz
					}
				}
			}
			h.sizes = now
		}
		if h.crashAt > 0 && h.hits == h.crashAt {
			if h.kill {
				syscall.Kill(os.Getpid(), syscall.SIGKILL)
				select {}
			}
			panic(vC05Crash{p})
		}
	}
}

// vC05Abandon releases the descriptors and mappings of a log that "died" without performing any of
// the effects of Close (no checkpoint, no index shrink, no sync).
func vC05Abandon(l *commitLog) {
	defer func() { recover() }()
	select {
	case <-l.closed:
	default:
		close(l.closed)
	}
	for _, s := range l.segments {
		if s.closed {
			continue
		}
		s.log.Close()
		if s.Index != nil && !s.Index.closed {
			s.Index.file.Close()
			s.Index.mmap.UnsafeUnmap()
		}
	}
}

// ---- what is on disk ----

type vC05File struct {
	Name    string    `json:"name"`
	Offs    []int64   `json:"offs,omitempty"`    // log file: offsets of the complete message frames, in file order
	Tail    int64     `json:"tail,omitempty"`    // log file: bytes after the last complete frame
	Entries [][]int64 `json:"entries,omitempty"` // index file: (offset, position, size) up to the first empty entry
	Text    string    `json:"text,omitempty"`    // checkpoint files
}

func vC05Disk(dir string) []vC05File {
	var out []vC05File
	des, _ := os.ReadDir(dir)
	for _, de := range des {
		name := de.Name()
		b, _ := os.ReadFile(filepath.Join(dir, name))
		f := vC05File{Name: name}
		switch {
		case strings.Contains(name, ".log"):
			pos := 0
			for pos+msgSetHeaderLen <= len(b) {
				ms := messageSet(b[pos : pos+msgSetHeaderLen])
				sz := int(ms.Size())
				if sz < 0 || pos+msgSetHeaderLen+sz > len(b) {
					break
				}
				f.Offs = append(f.Offs, ms.Offset())
				pos += msgSetHeaderLen + sz
			}
			f.Tail = int64(len(b) - pos)
		case strings.Contains(name, ".index"):
			base, _ := parseBase(name)
			for p := 0; p+entryWidth <= len(b); p += entryWidth {
				var rel relEntry
				binary.Read(bytes.NewReader(b[p:p+entryWidth]), binary.BigEndian, &rel)
				if rel.Position == 0 && rel.Timestamp == 0 && rel.Size == 0 {
					break
				}
				f.Entries = append(f.Entries, []int64{base + int64(rel.Offset), int64(rel.Position), int64(rel.Size)})
			}
		case name == hwFileName || name == leaderEpochFileName:
			f.Text = strings.ReplaceAll(strings.TrimSpace(string(b)), "\n", ";")
		default:
			f.Text = fmt.Sprintf("(%d bytes)", len(b))
		}
		out = append(out, f)
	}
	sort.Slice(out, func(i, j int) bool { return out[i].Name < out[j].Name })
	return out
}

func parseBase(name string) (int64, error) {
	var b int64
	_, err := fmt.Sscanf(name, "%d.", &b)
	return b, err
}

// ---- the program ----

type vC05Prog struct {
	seed    uint64
	id      int
	profile string // plain | retention | compact
	maxb    int64
	nops    int
}

func vC05GenProg(r *vRand, id int) vC05Prog {
	p := vC05Prog{seed: r.next() >> 12, id: id, maxb: int64([]int{80, 120, 200, 1 << 20}[r.pick(4, 4, 3, 1)]), nops: 6 + r.intn(12)}
	p.profile = []string{"plain", "retention", "compact"}[r.pick(4, 3, 3)]
	return p
}

func (p vC05Prog) options() Options {
	o := Options{MaxSegmentBytes: p.maxb}
	r := vNewRand(p.seed ^ 0x55)
	switch p.profile {
	case "retention":
		if r.intn(2) == 0 {
			o.MaxLogMessages = int64(2 + r.intn(8))
		} else {
			o.MaxLogBytes = int64(100 + r.intn(500))
		}
	case "compact":
		o.Compact = true
		o.CompactMaxGoroutines = 1
	}
	return o
}

type vC05Step struct {
	kind string
	ref  []vRefRec // abstract log after the step (clean run)
	hw   int64
}

type vC05Exec struct {
	p                   vC05Prog
	c                   *vLogCase
	r                   *vRand
	hook                *vC05Hook
	steps               []vC05Step // filled by the clean run
	stepHit             []int      // hook.hits after each step (clean run)
	cur                 string
	curArg              int64
	pool                [][]byte
	lastPoint, lastKind string
	lastHit             int
	ptsOp               int // index of the operation the crash points belong to (-1: the first new one)
	hits0               int // crash-point hits before the current operation
	intent              vM  // the operation about to run, for the crash record
	tear                uint64 // non-zero: the write before the crash point is torn (seed of the choice)
	tornWhat            vM
	crash2              int  // > 0: the recovery (commitlog.New) that follows the crash dies too, at its crash2-th crash point
	recPts              int  // crash points the recovery passed (when it was not interrupted)
	noSecond            bool // the recovery passed fewer points than crash2
}

// vC05RecoveryPoint: crash points inside commitlog.New.
func vC05RecoveryPoint(p string) bool { return strings.HasPrefix(p, "open:") || strings.HasPrefix(p, "rebuild:") }

// applyTear turns the files of a crash right after a write into the files of a crash inside that
// write: after append:log-written the log file keeps only a byte prefix of what the last write(2)
// added (a process killed inside a large write leaves a short write; at a frame boundary this is a
// batch of which only the first frames arrived); after append:index-written the index keeps only a
// byte prefix of the entries the last store through the mapping added (memmove stores ascending).
func (e *vC05Exec) applyTear(point string) {
	h := e.hook
	if h.grown == "" || h.grownTo <= h.grownFrom {
		return
	}
	r := vNewRand(e.tear)
	logPath := filepath.Join(e.c.dir, h.grown)
	b, err := os.ReadFile(logPath)
	if err != nil || int64(len(b)) != h.grownTo {
		return
	}
	// frame boundaries inside the write
	var bounds []int64
	pos := h.grownFrom
	for pos+msgSetHeaderLen <= h.grownTo {
		sz := int64(messageSet(b[pos : pos+msgSetHeaderLen]).Size())
		pos += msgSetHeaderLen + sz
		if pos < h.grownTo {
			bounds = append(bounds, pos)
		}
	}
	nframes := int64(len(bounds) + 1)
	switch point {
	case "append:log-written":
		delta := h.grownTo - h.grownFrom
		if delta < 2 {
			return
		}
		cut := h.grownFrom + 1 + int64(r.intn(int(delta-1)))
		if len(bounds) > 0 && r.intn(3) == 0 {
			cut = bounds[r.intn(len(bounds))]
		}
		if os.Truncate(logPath, cut) == nil {
			whole, last := 0, h.grownFrom
			for _, bd := range bounds {
				if bd <= cut {
					whole++
					last = bd
				}
			}
			e.tornWhat = vM{"file": h.grown, "from": h.grownFrom, "to": h.grownTo, "kept": cut - h.grownFrom, "k": whole, "z": cut - last}
			e.c.stats["torn/log"]++
		}
	case "append:index-written":
		idxPath := filepath.Join(e.c.dir, strings.Replace(h.grown, ".log", ".index", 1))
		ib, err := os.ReadFile(idxPath)
		if err != nil {
			return
		}
		end := int64(0)
		for end+entryWidth <= int64(len(ib)) {
			var rel relEntry
			binary.Read(bytes.NewReader(ib[end:end+entryWidth]), binary.BigEndian, &rel)
			if rel.Position == 0 && rel.Timestamp == 0 && rel.Size == 0 {
				break
			}
			end += entryWidth
		}
		start := end - nframes*entryWidth
		if start < 0 {
			return
		}
		keep := 1 + int64(r.intn(int(nframes*entryWidth-1)))
		f, err := os.OpenFile(idxPath, os.O_WRONLY, 0)
		if err != nil {
			return
		}
		torn := append([]byte{}, ib[start:end]...)
		for i := keep; i < int64(len(torn)); i++ {
			torn[i] = 0
		}
		if bytes.Equal(torn, ib[start:end]) {
			f.Close()
			return // the bytes that did not arrive are zero anyway: this is the completed write
		}
		f.WriteAt(torn, start)
		f.Close()
		// what the code will see of the entry that arrived in part
		whole := keep / entryWidth
		z := int64(-1)
		if keep%entryWidth != 0 && bytes.Equal(torn[whole*entryWidth:(whole+1)*entryWidth], ib[start+whole*entryWidth:start+(whole+1)*entryWidth]) {
			whole++ // the missing bytes of this entry are zero: it arrived whole
		} else if keep%entryWidth != 0 {
			var rel relEntry
			binary.Read(bytes.NewReader(torn[whole*entryWidth:(whole+1)*entryWidth]), binary.BigEndian, &rel)
			if !(rel.Position == 0 && rel.Timestamp == 0 && rel.Size == 0) {
				z = int64(rel.Position) + int64(rel.Size)
			}
		}
		e.tornWhat = vM{"file": filepath.Base(idxPath), "from": start, "to": end, "kept": keep, "k": whole, "z": z, "visible": z >= 0}
		e.c.stats["torn/index"]++
	}
}

func vC05NewExec(out *vOut, p vC05Prog, dirTag string, stats map[string]int, hook *vC05Hook) *vC05Exec {
	vNoOpen = true
	c := vNewLogCase(out, p.id, "c05"+dirTag, p.options(), stats)
	vNoOpen = false
	c.extra = vM{"seed": p.seed, "nops": p.nops, "prog": p.profile, "prog_maxb": p.maxb}
	e := &vC05Exec{p: p, c: c, r: vNewRand(p.seed), hook: hook}
	if p.profile == "compact" {
		e.pool = [][]byte{[]byte("a"), []byte("b"), nil}
	}
	return e
}

func (e *vC05Exec) batch() []*Message {
	n := 1 + e.r.pick(5, 3, 2)
	var msgs []*Message
	for j := 0; j < n; j++ {
		msgs = append(msgs, e.c.genMsg(e.r, e.pool))
	}
	return msgs
}

// step runs one operation of the workload and notes the crash points it passed.
func (e *vC05Exec) step() { e.withPts(e.step1) }

func (e *vC05Exec) withPts(f func()) {
	h0, n0 := len(e.hook.seq), len(e.c.ops)
	e.hits0 = e.hook.hits
	e.ptsOp = -1
	f()
	if e.ptsOp >= 0 {
		n0 = e.ptsOp // the operation proper follows a preparatory one
	}
	if len(e.c.ops) > n0 {
		e.c.ops[n0]["pts"] = append([]string{}, e.hook.seq[h0:]...)
	}
}

func vC05MsgsJSON(msgs []*Message) []vM {
	var mj []vM
	for _, m := range msgs {
		mj = append(mj, vMsgJSON(m, vEncode(m)))
	}
	return mj
}

// step1 runs one operation on the live log (with the C01 oracle attached).
func (e *vC05Exec) step1() {
	c, r := e.c, e.r
	nw := c.l.NewestOffset()
	hw := c.l.HighWatermark()
	switch r.pick(10, 3, 3, 4, 3, 1, 1) {
	case 0:
		e.cur = "append"
		msgs := e.batch()
		e.intent = vM{"op": "append", "msgs": vC05MsgsJSON(msgs)}
		c.doAppend(msgs)
	case 1:
		e.cur = "aset"
		msgs := e.batch()
		var rj []vM
		for i, m := range msgs {
			rj = append(rj, vM{"off": nw + 1 + int64(i), "ts": m.Timestamp, "ep": m.LeaderEpoch, "body": vHex(vEncode(m))})
		}
		e.intent = vM{"op": "aset", "recs": rj}
		c.doAppendSet(msgs, nw+1)
	case 2:
		if nw > hw {
			o := hw + 1 + int64(r.intn(int(nw-hw)))
			if r.intn(3) == 0 {
				segs := c.l.Segments()
				if b := segs[r.intn(len(segs))].BaseOffset; b > hw {
					o = b
				}
			}
			e.cur, e.curArg = "trunc", o
			e.intent = vM{"op": "trunc", "o": o}
			c.doTruncate(o)
		}
	case 3:
		e.cur = "clean"
		switch e.p.profile {
		case "retention":
			// what retention removes has been replicated: the HW is at the log end
			if nw >= 0 && hw < nw {
				c.doHW(nw)
			}
			e.ptsOp = len(c.ops)
			e.intent = vM{"op": "clean", "ttl": 0}
			c.doCleanRetention(0)
			e.hwInsideLog()
		case "compact":
			e.intent = vM{"op": "cleanc", "ttl": 0}
			c.doCompact()
		default:
			e.cur = "append"
			msgs := e.batch()
			e.intent = vM{"op": "append", "msgs": vC05MsgsJSON(msgs)}
			c.doAppend(msgs)
		}
	case 4:
		if nw >= 0 {
			e.cur = "hw"
			// the HW is the offset of a message that exists (an interrupted clean can leave holes)
			h := hw
			if len(c.ref) > 0 {
				if x := c.ref[r.intn(len(c.ref))].off; x > h {
					h = x
				}
			}
			c.doHW(h)
			if r.intn(2) == 0 {
				if err := c.l.checkpointHW(); err != nil {
					c.violation("checkpoint-failed", err.Error())
				}
				c.ops = append(c.ops, vM{"op": "ckpt"})
			}
		}
	case 5:
		e.cur = "epoch"
		c.epoch += uint64(1 + r.intn(2))
		if err := c.l.NewLeaderEpoch(c.epoch); err != nil {
			c.violation("new-leader-epoch-failed", err.Error())
		}
		c.ops = append(c.ops, vM{"op": "epoch", "e": c.epoch})
	default:
		e.cur = "reopen"
		e.intent = vM{"op": "reopen"}
		c.doReopen()
	}
}

// hwInsideLog: retention that outruns replication (HW below the oldest retained offset) is not part
// of this workload (what a committed reader does then is C03/C10's concern); the HW follows.
func (e *vC05Exec) hwInsideLog() {
	c := e.c
	if c.viol || c.l == nil {
		return
	}
	hw := c.l.HighWatermark()
	for _, r := range c.ref {
		if r.off >= hw {
			if r.off > hw && hw >= 0 {
				c.doHW(r.off) // the HW's own message is gone (below the log start, or in a hole left by an interrupted clean)
			}
			break
		}
	}
	if od := c.l.OldestOffset(); od >= 0 && c.l.HighWatermark() < od {
		c.doHW(od)
	}
}

// sweep reads the log back from every segment boundary (uncommitted) and once as a consumer.
func (e *vC05Exec) sweep() {
	c := e.c
	starts := map[int64]bool{0: true, c.l.NewestOffset(): true, c.l.NewestOffset() + 1: true}
	for _, s := range c.l.Segments() {
		starts[s.BaseOffset] = true
		starts[s.BaseOffset+1] = true
	}
	var list []int64
	for s := range starts {
		if s >= 0 {
			list = append(list, s)
		}
	}
	sort.Slice(list, func(i, j int) bool { return list[i] < list[j] })
	for _, s := range list {
		if !c.viol {
			c.doRead(s, true)
		}
	}
	if !c.viol && c.l.HighWatermark() >= 0 {
		c.doRead(c.l.OldestOffsetOrZero(), false)
	}
}

func vCopyRef(ref []vRefRec) []vRefRec { return append([]vRefRec{}, ref...) }

// runClean runs the whole program with no crash and records the abstract log after every step.
func (e *vC05Exec) runClean() bool {
	e.c.open()
	for i := 0; i < e.p.nops && !e.c.viol && e.c.l != nil; i++ {
		e.step()
		e.steps = append(e.steps, vC05Step{kind: e.cur, ref: vCopyRef(e.c.ref), hw: e.c.l.HighWatermark()})
		e.stepHit = append(e.stepHit, e.hook.hits)
	}
	ok := !e.c.viol
	if ok && e.c.l != nil {
		e.sweep()
	}
	return ok && !e.c.viol
}

type vC05Obs struct {
	point  string
	step   int
	kind   string
	disk   []vC05File
	reopen string // "" ok, else error text
	offs   []int64
	newest int64
	oldest int64
	hw     int64
	cache  [][]int64
}

// runCrash replays the program and crashes at the n-th crash-point hit. clean is the clean run.
func (e *vC05Exec) runCrash(clean *vC05Exec, n int, childDisk func() []vC05File) *vC05Obs {
	c := e.c
	e.hook.crashAt = n
	var obs *vC05Obs
	i := -1
	for ; i < e.p.nops && !c.viol && (c.l != nil || i == -1); i++ {
		before := vCopyRef(c.ref)
		hwBefore := int64(-1)
		if c.l != nil {
			hwBefore = c.l.HighWatermark()
		}
		var crash *vC05Crash
		func() {
			defer func() {
				if x := recover(); x != nil {
					if cr, ok := x.(vC05Crash); ok {
						crash = &cr
						return
					}
					panic(x)
				}
			}()
			if i == -1 {
				e.cur = "create"
				e.intent = vM{"op": "create"}
				e.hits0 = e.hook.hits
				c.open()
			} else {
				e.step()
			}
		}()
		if crash == nil {
			continue
		}
		e.hook.crashAt = 0
		e.lastPoint, e.lastKind, e.lastHit = crash.point, e.cur, n
		if i >= len(clean.steps) && i >= 0 {
			c.violation("driver-nondeterministic", "the replay ran past the clean run")
			return nil
		}
		var after []vRefRec
		if i >= 0 {
			after = clean.steps[i].ref
		}
		c.tag = "@" + crash.point
		stopR := e.watch("commitlog.New and the read-back")
		obs = e.recover(crash.point, i, before, after, hwBefore, childDisk)
		stopR()
		break
	}
	if obs == nil || c.viol || c.l == nil {
		return obs
	}
	stop := e.watch("the operations that follow")
	defer stop()
	// repeat the interrupted operation, as the restarted server would
	e.withPts(func() {
		switch e.cur {
		case "trunc":
			if e.curArg > c.l.HighWatermark() {
				c.doTruncate(e.curArg)
			}
		case "clean":
			if e.p.profile == "retention" {
				c.doCleanRetention(0)
				e.hwInsideLog()
			} else if e.p.profile == "compact" {
				c.doCompact()
			}
		}
	})
	if !c.viol {
		c.state()
	}
	// and keep using the log
	for k := 0; k < 5 && !c.viol && c.l != nil; k++ {
		e.step()
		if c.l != nil && !c.viol {
			c.state()
		}
	}
	if !c.viol && c.l != nil {
		e.sweep()
	}
	if !c.viol && c.l != nil {
		e.withPts(func() { c.doReopen() })
		if c.l != nil && !c.viol {
			c.state()
			e.sweep()
		}
	}
	return obs
}

// vC05Watch aborts the run when the code under test does not return (a busy loop cannot be
// interrupted from inside the process): the violation is written out first.
func (e *vC05Exec) watch(what string) func() {
	c := e.c
	t := time.AfterFunc(20*time.Second, func() {
		c.out.emit(vM{"k": "violation", "sig": "hang" + c.tag, "what": fmt.Sprintf("after a crash at %s during %s the recovered log does not return from %s (20 s)", e.lastPoint, e.lastKind, what),
			"case": vM{"k": "c05", "seed": e.p.seed, "id": e.p.id, "profile": e.p.profile, "maxb": e.p.maxb, "nops": e.p.nops, "crash_at": e.lastHit, "point": e.lastPoint, "ops": c.ops}})
		c.out.emit(vM{"k": "aborted", "why": "hang"})
		c.out.close()
		os.Exit(3)
	})
	return func() { t.Stop() }
}

func vCancelled() (context.Context, context.CancelFunc) {
	ctx, cancel := context.WithCancel(context.Background())
	cancel()
	return ctx, cancel
}

func vC05Key(r vRefRec) string { return fmt.Sprintf("%d|%d|%d|%x", r.off, r.ts, r.ep, r.body) }

// recover abandons the crashed log, reopens the directory and judges what comes back.
func (e *vC05Exec) recover(point string, step int, before, after []vRefRec, hwBefore int64, childDisk func() []vC05File) *vC05Obs {
	c := e.c
	vC05Abandon(c.l)
	for _, lr := range c.readers {
		lr.dead = true
	}
	if e.tear != 0 {
		e.applyTear(point)
		if e.tornWhat != nil {
			point += "~torn"
			c.tag += "~torn"
		}
	}
	obs := &vC05Obs{point: point, step: step, kind: e.cur, disk: vC05Disk(c.dir)}
	c.stats["crash/"+e.cur+"/"+point]++
	if c.l == nil { // crashed inside the very first commitlog.New
		c.l = &commitLog{closed: make(chan struct{}), Options: Options{Path: c.dir}}
	}
	bad := func(kind, what string) {
		c.viol = true
		c.out.emit(vM{"k": "violation", "sig": kind + c.tag, "what": fmt.Sprintf("crash at %s during %s: %s", point, e.cur, what),
			"case": vM{"k": "c05", "seed": e.p.seed, "id": e.p.id, "profile": e.p.profile, "maxb": e.p.maxb, "nops": e.p.nops, "crash_at": e.hook.hits, "point": point, "step": step,
				"ops": c.ops, "disk": obs.disk}})
	}
	if childDisk != nil {
		cd := childDisk()
		a, b := fmt.Sprint(obs.disk), fmt.Sprint(cd)
		if a != b {
			c.viol = true
			c.out.emit(vM{"k": "violation", "prop": "tie", "sig": "child-disk-differs", "what": fmt.Sprintf("files after an in-process crash at %s differ from the files a killed child leaves: %s vs %s", point, a, b), "case": vM{"seed": e.p.seed, "id": e.p.id}})
			return obs
		}
		c.stats["child-kill-compared"]++
	}
	var l CommitLog
	var err error
	var p string
	// the crash points of the operation itself / of the commitlog.New the crash happened in
	lvl := []vM{}
	opK, opPoint := e.lastHit-e.hits0, point
	var opDisk interface{} = obs.disk
	if vC05RecoveryPoint(strings.TrimSuffix(point, "~torn")) {
		// the process died inside commitlog.New (a clean reopen, or the very first open): the effects of the
		// operation proper are complete, the crash is the j-th crash point of the recovery
		j := 0
		for _, q := range e.hook.seq[e.hits0:] {
			if vC05RecoveryPoint(q) {
				j++
			}
		}
		lvl = append(lvl, vM{"j": j, "point": point, "disk": obs.disk})
		opK, opPoint, opDisk = 0, "", nil
	}
	hitsBefore := e.hook.hits
	if e.crash2 > 0 {
		e.hook.crashAt = e.hook.hits + e.crash2
	}
	var second *vC05Crash
	func() {
		defer func() {
			if x := recover(); x != nil {
				if cr, ok := x.(vC05Crash); ok {
					second = &cr
					return
				}
				panic(x)
			}
		}()
		p = vCatch(func() { l, err = New(c.opts) })
	}()
	e.hook.crashAt = 0
	if second != nil {
		// the recovery died as well; the directory as it is now is recovered again
		d2 := vC05Disk(c.dir)
		lvl = append(lvl, vM{"j": e.crash2, "point": second.point, "disk": d2})
		obs.point += "+" + second.point
		c.tag += "+" + second.point
		c.stats["crash2/"+second.point]++
		p = vCatch(func() { l, err = New(c.opts) })
	} else {
		e.recPts = e.hook.hits - hitsBefore
		if e.crash2 > 0 {
			e.noSecond = true
		}
	}
	if p != "" || err != nil {
		obs.reopen = fmt.Sprintf("%v %s", err, p)
		c.l = nil
		bad("reopen-failed", "commitlog.New on the directory left behind failed: "+obs.reopen)
		return obs
	}
	c.l = l.(*commitLog)
	obs.newest, obs.oldest, obs.hw = c.l.NewestOffset(), c.l.OldestOffset(), c.l.HighWatermark()
	for _, eo := range c.l.leaderEpochCache.epochOffsets {
		obs.cache = append(obs.cache, []int64{int64(eo.leaderEpoch), eo.startOffset})
	}
	// read everything back
	var got []vRefRec
	end := ""
	rp := vCatch(func() {
		rd, err := c.l.NewReader(c.l.OldestOffsetOrZero(), true)
		if err != nil {
			end = "open:" + err.Error()
			return
		}
		_, got, end = vReadUntilBlock(rd, true)
	})
	for _, g := range got {
		obs.offs = append(obs.offs, g.off)
	}
	if rp != "" || (end != "wait" && !(len(got) == 0 && strings.HasPrefix(end, "open:"))) {
		bad("read-failed", fmt.Sprintf("reading the recovered log back failed: %s %s", end, rp))
		return obs
	}
	known := map[string]bool{}
	for _, r := range before {
		known[vC05Key(r)] = true
	}
	for _, r := range after {
		known[vC05Key(r)] = true
	}
	prev := int64(-1)
	have := map[int64]bool{}
	for _, g := range got {
		if g.off <= prev {
			bad("duplicate-offset", fmt.Sprintf("the recovered log delivers offset %d after offset %d (offsets read: %v)", g.off, prev, obs.offs))
			return obs
		}
		prev = g.off
		if !known[vC05Key(g)] {
			bad("phantom", fmt.Sprintf("the recovered log holds at offset %d a record that was never appended there (offsets read: %v)", g.off, obs.offs))
			return obs
		}
		have[g.off] = true
	}
	inAfter := map[int64]bool{}
	for _, r := range after {
		inAfter[r.off] = true
	}
	for _, r := range before {
		if inAfter[r.off] && !have[r.off] {
			bad("lost", fmt.Sprintf("offset %d, appended before the crash and not being removed, is gone (offsets read: %v)", r.off, obs.offs))
			return obs
		}
	}
	if len(got) > 0 && obs.newest != got[len(got)-1].off {
		bad("newest", fmt.Sprintf("NewestOffset()=%d but the last record read back has offset %d", obs.newest, got[len(got)-1].off))
		return obs
	}
	if len(got) > 0 && obs.oldest != got[0].off {
		bad("oldest", fmt.Sprintf("OldestOffset()=%d but the first record read back has offset %d", obs.oldest, got[0].off))
		return obs
	}
	// every record is also found through the index
	for _, g := range got {
		var one []vRefRec
		ip := vCatch(func() {
			rd, err := c.l.NewReader(g.off, true)
			if err != nil {
				return
			}
			hb := make([]byte, 28)
			ctx, cancel := vCancelled()
			defer cancel()
			m, off, ts, ep, err := rd.ReadMessage(ctx, hb)
			if err == nil {
				one = append(one, vRefRec{off: off, ts: ts, ep: ep, body: append([]byte{}, m...)})
			}
		})
		if ip != "" || len(one) != 1 || vC05Key(one[0]) != vC05Key(g) {
			bad("lookup", fmt.Sprintf("a reader positioned at offset %d of the recovered log does not return that record (%s)", g.off, ip))
			return obs
		}
	}
	if obs.hw > hwBefore {
		bad("hw-above", fmt.Sprintf("recovered high watermark %d is above the one before the crash (%d)", obs.hw, hwBefore))
		return obs
	}
	// epoch history against the messages present
	prevE, prevO := int64(-1), int64(-2)
	for _, eo := range obs.cache {
		if eo[0] <= prevE || eo[1] < prevO {
			bad("epoch-order", fmt.Sprintf("epoch cache %v is not increasing", obs.cache))
			return obs
		}
		prevE, prevO = eo[0], eo[1]
		if eo[1] > obs.newest {
			// commitlog.New drops every epoch that starts at or after the log end: an epoch of which the log
			// holds no message is not part of a history that "matches the messages present"
			bad("epoch-beyond-log", fmt.Sprintf("the recovered epoch history %v has an entry that starts after the last message (offset %d): an epoch no message belongs to", obs.cache, obs.newest))
			return obs
		}
	}
	for _, g := range got {
		ep := int64(0)
		for _, eo := range obs.cache {
			if eo[1] <= g.off {
				ep = eo[0]
			}
		}
		if uint64(ep) != g.ep {
			bad("epoch-mismatch", fmt.Sprintf("offset %d was written in leader epoch %d, the recovered epoch history %v says %d", g.off, g.ep, obs.cache, ep))
			return obs
		}
	}
	c.ref = got
	c.ops = append(c.ops, vM{"op": "crash", "intent": e.intent, "k": opK, "point": opPoint, "disk": opDisk, "rec": lvl,
		"offs": obs.offs, "newest": obs.newest, "oldest": obs.oldest, "hw": obs.hw, "cache": obs.cache, "torn": e.tornWhat})
	e.hwInsideLog()
	return obs
}

func (e *vC05Exec) done() {
	if e.c.l != nil {
		vCatch(func() { e.c.l.Close() })
	}
	os.RemoveAll(e.c.dir)
}

func (e *vC05Exec) caseJSON(createCrash bool) vM {
	o := e.c.opts
	return vM{"k": "dcase", "id": e.p.id, "seed": e.p.seed, "profile": e.p.profile, "maxb": o.MaxSegmentBytes, "ret_msgs": o.MaxLogMessages, "ret_bytes": o.MaxLogBytes,
		"compact": o.Compact, "create_crash": createCrash, "ops": e.c.ops}
}

func vC05ObsJSON(p vC05Prog, n int, o *vC05Obs, ops []vM) vM {
	return vM{"k": "crash", "seed": p.seed, "id": p.id, "profile": p.profile, "maxb": p.maxb, "nops": p.nops, "crash_at": n, "point": o.point, "step": o.step, "kind": o.kind,
		"disk": o.disk, "reopen": o.reopen, "offs": o.offs, "newest": o.newest, "oldest": o.oldest, "hw": o.hw, "cache": o.cache, "ops": ops}
}

// TestVerifC05Child runs one program in a child process that is killed at the given hit.
func TestVerifC05Child(t *testing.T) {
	spec := os.Getenv("VERIF_C05_CHILD")
	if spec == "" {
		t.Skip()
	}
	var p vC05Prog
	var n int
	fmt.Sscanf(spec, "%d:%d:%s %d %d %d", &p.seed, &p.id, &p.profile, &p.maxb, &p.nops, &n)
	out := vOpenOut()
	hook := &vC05Hook{crashAt: n, kill: true}
	hook.install()
	e := vC05NewExec(out, p, "child", map[string]int{}, hook)
	e.c.open()
	for i := 0; i < p.nops && e.c.l != nil; i++ {
		e.step()
	}
	t.Fatalf("child was not killed (hits=%d, wanted %d)", hook.hits, n)
}

func vC05RunChild(p vC05Prog, n int) []vC05File {
	cmd := exec.Command(os.Args[0], "-test.run", "^TestVerifC05Child$")
	childOut := filepath.Join(os.Getenv("VERIF_WORK"), "c05_child.jsonl")
	cmd.Env = append(os.Environ(), fmt.Sprintf("VERIF_C05_CHILD=%d:%d:%s %d %d %d", p.seed, p.id, p.profile, p.maxb, p.nops, n), "VERIF_OUT="+childOut)
	cmd.Run() // killed
	dir := filepath.Join(os.Getenv("VERIF_WORK"), fmt.Sprintf("log_c05child_%d", p.id))
	d := vC05Disk(dir)
	os.RemoveAll(dir)
	os.Remove(childOut)
	return d
}

func TestVerifC05(t *testing.T) {
	out := vOpenOut()
	defer out.close()
	stats := map[string]int{}
	nprog := vEnvInt("VERIF_N", 40)
	maxReplays := vEnvInt("VERIF_C05_REPLAYS", 60) // per program; more hits than this are sampled
	childEvery := vEnvInt("VERIF_C05_CHILD_EVERY", 25)
	tearOn := vEnvInt("VERIF_C05_TEAR", 1) != 0
	maxRec := vEnvInt("VERIF_C05_RECOVERY_CRASHES", 3) // per crash: crashes inside the commitlog.New that follows
	r := vNewRand(vSeed())
	var progs []vC05Prog
	if rl := vReplayLines(); rl != nil {
		for _, m := range rl {
			prof, _ := m["prog"].(string)
			if prof == "" {
				prof, _ = m["profile"].(string)
			}
			maxb, ok := m["prog_maxb"].(float64)
			if !ok {
				maxb, _ = m["maxb"].(float64)
			}
			if _, ok := m["seed"].(float64); !ok {
				continue
			}
			progs = append(progs, vC05Prog{seed: uint64(m["seed"].(float64)), id: int(m["id"].(float64)), profile: prof, maxb: int64(maxb), nops: int(m["nops"].(float64))})
		}
	} else {
		for i := 0; i < nprog; i++ {
			progs = append(progs, vC05GenProg(r, i))
		}
	}
	replays := 0
	start := time.Now()
	if vReplayLines() == nil {
		vC05HoleCorpus(out, stats)
	}
	for _, p := range progs {
		hook := &vC05Hook{}
		hook.install()
		clean := vC05NewExec(out, p, "", stats, hook)
		ok := clean.runClean()
		total := hook.hits
		if ok {
			out.emit(clean.caseJSON(false))
		}
		clean.done()
		if !ok {
			continue // a violation without any crash is C01's concern and has been emitted
		}
		stats["programs"]++
		stats["profile/"+p.profile]++
		var hits []int
		for n := 1; n <= total; n++ {
			hits = append(hits, n)
		}
		for len(hits) > maxReplays {
			i := r.intn(len(hits))
			hits = append(hits[:i], hits[i+1:]...)
		}
		for _, n := range hits {
			h2 := &vC05Hook{}
			h2.install()
			e := vC05NewExec(out, p, "", stats, h2)
			var child func() []vC05File
			if childEvery > 0 && replays%childEvery == 0 {
				child = func() []vC05File { return vC05RunChild(p, n) }
			}
			obs := e.runCrash(clean, n, child)
			replays++
			if obs != nil {
				out.emit(vC05ObsJSON(p, n, obs, nil))
				if !e.c.viol {
					out.emit(e.caseJSON(obs.step == -1))
				}
			} else if !e.c.viol {
				out.emit(vM{"k": "violation", "prop": "tie", "sig": "no-crash", "what": fmt.Sprintf("replay of program %d did not reach hit %d of %d", p.id, n, total), "case": vM{"seed": p.seed}})
			}
			e.done()
			out.flush()
			// the same crash, and the recovery that follows dies at its j-th crash point
			for j := 1; j <= e.recPts && j <= maxRec && obs != nil && !e.c.viol && (e.recPts > 1 || n%6 == 0); j++ {
				h4 := &vC05Hook{}
				h4.install()
				e2 := vC05NewExec(out, p, "", stats, h4)
				e2.crash2 = j
				if e.recPts > maxRec { // long rebuilds: a sample of their points
					e2.crash2 = 1 + int((p.seed+uint64(n)*31+uint64(j)*7)%uint64(e.recPts))
				}
				obs2 := e2.runCrash(clean, n, nil)
				if obs2 != nil && !e2.noSecond {
					replays++
					out.emit(vC05ObsJSON(p, n, obs2, nil))
					if !e2.c.viol {
						out.emit(e2.caseJSON(obs2.step == -1))
					}
				}
				e2.done()
				out.flush()
			}
			// the same crash, inside the write that precedes the point
			if pt := hook.seq[n-1]; tearOn && (pt == "append:log-written" || pt == "append:index-written") {
				h3 := &vC05Hook{}
				h3.install()
				e := vC05NewExec(out, p, "", stats, h3)
				e.tear = (p.seed*1000003 + uint64(n)*7919) | 1 // a function of the program and the hit: replays tear the same way
				h3.dir, h3.sizes = e.c.dir, map[string]int64{}
				obs := e.runCrash(clean, n, nil)
				if obs != nil && e.tornWhat != nil {
					replays++
					o := vC05ObsJSON(p, n, obs, nil)
					o["torn"] = e.tornWhat
					out.emit(o)
					if !e.c.viol {
						out.emit(e.caseJSON(obs.step == -1))
					}
				}
				e.done()
				out.flush()
			}
		}
	}
	CrashHook = nil
	stats["replays"] = replays
	stats["seconds"] = int(time.Since(start).Seconds())
	out.emit(vM{"k": "stat", "dist": stats})
}

// vC05HoleCorpus is a fixed history with two crashes (DESIGN.md section 0.3): a clean by the
// message limit deletes newest first; interrupted, it leaves a hole that holds the start of epoch 2;
// the log is reopened, truncated at the base of the segment after the hole, a message of epoch 3
// is appended and the log reopened again. The epoch history must fit the messages.
func vC05HoleCorpus(out *vOut, stats map[string]int) {
	dir := filepath.Join(os.Getenv("VERIF_WORK"), "log_c05hole")
	os.RemoveAll(dir)
	defer os.RemoveAll(dir)
	opts := Options{Path: dir, Name: "verif", MaxSegmentBytes: 100, MaxLogMessages: 3, CleanerInterval: time.Hour, HWCheckpointInterval: time.Hour}
	fail := func(sig, what string) {
		out.emit(vM{"k": "violation", "sig": sig, "what": what, "case": vM{"k": "c05-corpus", "name": "hole"}})
	}
	li, err := New(opts)
	if err != nil {
		fail("reopen-failed@corpus-hole", err.Error())
		return
	}
	l := li.(*commitLog)
	ts := int64(1000)
	app := func(l *commitLog, ep uint64, n int) {
		for i := 0; i < n; i++ {
			ts++
			l.Append([]*Message{{MagicByte: 1, Timestamp: ts, LeaderEpoch: ep, Value: bytes.Repeat([]byte("x"), 20), Offset: -1}})
		}
	}
	app(l, 1, 7)
	app(l, 2, 5)
	l.SetHighWatermark(l.NewestOffset())
	hits := 0
	CrashHook = func(p string) {
		if p == "clean:deleting-segment" {
			hits++
			if hits == 3 { // the two newest victims are gone, the oldest are still there
				panic(vC05Crash{p})
			}
		}
	}
	func() {
		defer func() { recover() }()
		l.Clean()
	}()
	CrashHook = nil
	vC05Abandon(l)
	if li, err = New(opts); err != nil {
		fail("reopen-failed@corpus-hole", err.Error())
		return
	}
	l = li.(*commitLog)
	segs := l.Segments()
	tr := segs[len(segs)-1].BaseOffset
	if err := l.Truncate(tr); err != nil {
		fail("truncate-failed@corpus-hole", err.Error())
		return
	}
	app(l, 3, 1)
	l.Close()
	if li, err = New(opts); err != nil {
		fail("reopen-failed@corpus-hole", err.Error())
		return
	}
	l = li.(*commitLog)
	defer l.Close()
	rd, err := l.NewReader(l.OldestOffset(), true)
	if err != nil {
		fail("read-failed@corpus-hole", err.Error())
		return
	}
	_, recs, _ := vReadUntilBlock(rd, true)
	var cache [][]int64
	for _, eo := range l.leaderEpochCache.epochOffsets {
		cache = append(cache, []int64{int64(eo.leaderEpoch), eo.startOffset})
	}
	stats["corpus/hole-then-truncate"]++
	for _, g := range recs {
		ep := int64(0)
		for _, eo := range cache {
			if eo[1] <= g.off {
				ep = eo[0]
			}
		}
		if uint64(ep) != g.ep {
			fail("epoch-mismatch@corpus-hole", fmt.Sprintf("12 messages in 6 segments (epoch 2 starts at offset 7), message limit 3, Clean dies after deleting the two newest victims (hole 6..9), reopen, Truncate(%d), append in epoch 3, reopen: offset %d was written in leader epoch %d, the recovered epoch history %v says %d", tr, g.off, g.ep, cache, ep))
			return
		}
	}
}
