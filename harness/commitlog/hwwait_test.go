package commitlog

// C03 / C10: the wake-up protocol at lock granularity, deterministically. Each label of the LTS of
// coq/theories/Log/HwWaitRo.v is one call into the real commit log: Append, SetReadonly,
// SetHighWatermark, HighWatermark() (a reader's look at the HW) and waitForHW(reader, view), whose
// answer -- the channel already holds false (retry) / true (end of read-only log) / nothing (the
// reader is registered and parked) -- is the decision the model makes. After every label the state
// (HW, newest offset, read-only flag, and per reader: next, view, parked, ended) is recorded; the
// model replays the labels and must agree at every step.

import (
	"context"
	"fmt"
	"os"
	"testing"
	"time"
)

type vWaitKey struct{ id int }

func (k *vWaitKey) Read(ctx context.Context, p []byte) (int, error) { return 0, nil }

type vWaitReader struct {
	key    *vWaitKey
	next   int64
	seen   int64
	parked bool
	ended  bool
	ch     <-chan bool
}

func TestVerifHwWait(t *testing.T) {
	out := vOpenOut()
	defer out.close()
	n := vEnvInt("VERIF_N", 200)
	r := vNewRand(vSeed() ^ 0x77)
	stats := map[string]int{}
	for id := 0; id < n; id++ {
		dir := fmt.Sprintf("%s/log_hwwait_%d", os.Getenv("VERIF_WORK"), id)
		os.RemoveAll(dir)
		li, err := New(Options{Path: dir, Name: "verif", MaxSegmentBytes: int64([]int{100, 1 << 20}[r.intn(2)]), CleanerInterval: time.Hour, HWCheckpointInterval: time.Hour})
		if err != nil {
			t.Fatal(err)
		}
		l := li.(*commitLog)
		nr := 1 + r.intn(3)
		var rs []*vWaitReader
		for i := 0; i < nr; i++ {
			rs = append(rs, &vWaitReader{key: &vWaitKey{i}, next: 0, seen: -1})
		}
		var steps []vM
		ts := int64(1000)
		// what a parked reader's channel holds is looked at after every label
		poll := func() {
			for _, x := range rs {
				if !x.parked {
					continue
				}
				select {
				case ro := <-x.ch:
					x.parked = false
					if ro {
						x.ended = true
					}
				default:
				}
			}
		}
		obs := func(lb vM) {
			poll()
			var rj []vM
			for _, x := range rs {
				rj = append(rj, vM{"next": x.next, "seen": x.seen, "parked": x.parked, "ended": x.ended})
			}
			steps = append(steps, vM{"lb": lb, "hw": l.HighWatermark(), "newest": l.NewestOffset(), "ro": l.IsReadonly(), "rs": rj})
		}
		nsteps := 8 + r.intn(40)
		for k := 0; k < nsteps; k++ {
			i := r.intn(nr)
			x := rs[i]
			active := !x.parked && !x.ended
			switch r.pick(4, 2, 5, 6, 5, 6) {
			case 0:
				cnt := 1 + r.intn(3)
				var msgs []*Message
				for j := 0; j < cnt; j++ {
					ts++
					msgs = append(msgs, &Message{MagicByte: 1, Timestamp: ts, LeaderEpoch: 1, Value: []byte("v"), Offset: -1})
				}
				_, err := l.Append(msgs)
				if (err != nil) != l.IsReadonly() {
					out.emit(vM{"k": "violation", "sig": "hwwait/append", "what": fmt.Sprintf("Append on a log with readonly=%v answered %v", l.IsReadonly(), err), "case": vM{"k": "hwwait", "id": id}})
				}
				stats["append"]++
				obs(vM{"l": "append", "n": cnt})
			case 1:
				b := r.intn(3) > 0
				l.SetReadonly(b)
				stats[fmt.Sprintf("setreadonly/%v", b)]++
				obs(vM{"l": "ro", "b": b})
			case 2:
				nw := l.NewestOffset()
				if nw < 0 {
					continue
				}
				h := int64(r.intn(int(nw) + 1))
				if r.intn(3) == 0 {
					h = nw
				}
				l.SetHighWatermark(h)
				stats["sethw"]++
				obs(vM{"l": "sethw", "h": h})
			case 3:
				if !active {
					continue
				}
				x.seen = l.HighWatermark()
				stats["sync"]++
				obs(vM{"l": "sync", "i": i})
			case 4:
				if !active || x.next > x.seen {
					continue
				}
				x.next++
				stats["deliver"]++
				obs(vM{"l": "deliver", "i": i})
			default:
				if !active || x.seen >= x.next {
					continue
				}
				ch := l.waitForHW(x.key, x.seen)
				select {
				case ro := <-ch:
					if ro {
						x.ended = true
						stats["wait/end"]++
					} else {
						stats["wait/retry"]++
					}
				default:
					x.parked, x.ch = true, ch
					stats["wait/park"]++
				}
				obs(vM{"l": "wait", "i": i})
			}
		}
		for _, x := range rs {
			l.removeHWWaiter(x.key)
		}
		l.Close()
		os.RemoveAll(dir)
		out.emit(vM{"k": "hwwait", "id": id, "readers": nr, "steps": steps})
	}
	out.emit(vM{"k": "stat", "dist": stats})
}
