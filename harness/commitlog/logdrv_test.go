package commitlog

// Log-history driver: runs generated operation histories on a real commitLog in a scratch
// directory, judges them with a direct oracle (an abstract list of records: the property's
// own words), and records every observation for the comparison with the Coq model.

import (
	"bytes"
	"context"
	"fmt"
	"os"
	"path/filepath"
	"sort"
	"strings"
	"testing"
	"time"

	pkgErrors "github.com/pkg/errors"

	"github.com/liftbridge-io/liftbridge/server/logger"
)

type vRefRec struct {
	off  int64
	ts   int64
	ep   uint64
	body []byte
	key  []byte
	val  []byte
	hdr  map[string][]byte
}

type vLogCase struct {
	id         int
	profile    string
	dir        string
	opts       Options
	l          *commitLog
	ref        []vRefRec // abstract log (spec): what must be readable
	ops        []vM
	out        *vOut
	viol       bool
	nextTs     int64
	epoch      uint64
	stats      map[string]int
	readers    []*vLiveReader
	hook       *vHookLogger
	tag        string // appended to violation signatures (C05: the crash point the log was recovered from)
	extra      vM     // further fields of the replay record
	clockSteps bool   // message timestamps may go back (C09 age limit on non-monotonic write times)
}

// vLiveReader is a Reader kept across operations.
type vLiveReader struct {
	id   int
	rd   *Reader
	unc  bool
	next int64 // spec: the next offset it must deliver
	dead bool
}

func (c *vLogCase) open() {
	l, err := New(c.opts)
	if err != nil {
		c.violation("open", fmt.Sprintf("commitlog.New failed: %v", err))
		return
	}
	c.l = l.(*commitLog)
}

func (c *vLogCase) violation(sig, what string) {
	c.viol = true
	c.out.emit(vM{"k": "violation", "sig": sig + c.tag, "what": what, "case": c.caseJSON()})
}

func (c *vLogCase) caseJSON() vM {
	m := c.caseJSON0()
	for k, v := range c.extra {
		m[k] = v
	}
	return m
}

func (c *vLogCase) caseJSON0() vM {
	return vM{"k": "log", "id": c.id, "profile": c.profile, "maxb": c.opts.MaxSegmentBytes, "cc": c.opts.ConcurrencyControl,
		"ret_bytes": c.opts.MaxLogBytes, "ret_msgs": c.opts.MaxLogMessages, "ret_age": int64(c.opts.MaxLogAge),
		"compact": c.opts.Compact, "ops": c.ops}
}

func (c *vLogCase) refNext() int64 {
	if len(c.ref) == 0 {
		return c.firstOff()
	}
	return c.ref[len(c.ref)-1].off + 1
}

// firstOff: offset an empty log assigns next (0 unless everything was truncated/cleaned away).
func (c *vLogCase) firstOff() int64 { return c.l.NewestOffset() + 1 }

func vGenBytes(r *vRand, allowNil bool) []byte {
	switch r.pick(2, 2, 6, 2) {
	case 0:
		if allowNil {
			return nil
		}
		return []byte{}
	case 1:
		return []byte{}
	case 2:
		return r.bytesN(1 + r.intn(6))
	default:
		return r.bytesN(20 + r.intn(60))
	}
}

func (c *vLogCase) genMsg(r *vRand, keyPool [][]byte) *Message {
	c.nextTs += int64(1 + r.intn(5))
	if c.clockSteps && r.intn(7) == 0 {
		// the leader's clock steps back: last-write times of segments are then not monotonic
		c.nextTs -= int64(5 + r.intn(25))
		if c.nextTs < 1001 {
			c.nextTs = 1001
		}
		c.stats["clock-step-back"]++
	}
	if r.intn(12) == 0 {
		c.epoch += uint64(1 + r.intn(2))
	}
	m := &Message{MagicByte: 1, Timestamp: c.nextTs, LeaderEpoch: c.epoch, Offset: -1}
	if keyPool != nil {
		m.Key = keyPool[r.intn(len(keyPool))]
	} else {
		m.Key = vGenBytes(r, true)
	}
	m.Value = vGenBytes(r, true)
	nh := r.pick(5, 4) // at most one header: Encode ranges over the map, two headers have no fixed byte order
	if nh > 0 {
		m.Headers = map[string][]byte{}
		for i := 0; i < nh; i++ {
			v := vGenBytes(r, true) // nil, empty, short, long
			m.Headers[fmt.Sprintf("h%d", r.intn(3))] = v
		}
	}
	return m
}

func vMsgJSON(m *Message, body []byte) vM {
	return vM{"ts": m.Timestamp, "ep": m.LeaderEpoch, "body": vHex(body), "exp": m.Offset}
}

func vEncode(m *Message) []byte {
	b, err := encode(m)
	if err != nil {
		panic(err)
	}
	return b
}

func (c *vLogCase) state() {
	c.ops = append(c.ops, vM{"op": "state", "newest": c.l.NewestOffset(), "oldest": c.l.OldestOffset(), "hw": c.l.HighWatermark()})
	// direct oracle on the offsets
	if len(c.ref) > 0 {
		if c.l.NewestOffset() != c.ref[len(c.ref)-1].off {
			c.violation("newest", fmt.Sprintf("NewestOffset()=%d but the last appended record has offset %d", c.l.NewestOffset(), c.ref[len(c.ref)-1].off))
		}
		if c.l.OldestOffset() != c.ref[0].off {
			c.violation("oldest", fmt.Sprintf("OldestOffset()=%d but the first retained record has offset %d", c.l.OldestOffset(), c.ref[0].off))
		}
	}
}

func (c *vLogCase) doAppend(msgs []*Message) {
	var bodies [][]byte
	var mj []vM
	for _, m := range msgs {
		b := vEncode(m)
		bodies = append(bodies, b)
		mj = append(mj, vMsgJSON(m, b))
	}
	next := c.l.NewestOffset() + 1
	var offs []int64
	var err error
	res := 0
	p := vCatch(func() { offs, err = c.l.Append(msgs) })
	if p != "" {
		res = 2
	} else if err != nil {
		res = 1
	}
	c.ops = append(c.ops, vM{"op": "append", "msgs": mj, "res": res, "offs": offs})
	c.stats["append/"+[]string{"ok", "err", "panic"}[res]]++
	cc := c.opts.ConcurrencyControl
	if res == 0 {
		for i, m := range msgs {
			if offs[i] != next+int64(i) {
				c.violation("append-offsets", fmt.Sprintf("Append returned offsets %v, expected consecutive from %d", offs, next))
				break
			}
			if cc && m.Offset != -1 && m.Offset != offs[i] {
				c.violation("occ-stored-at-other-offset", fmt.Sprintf("conditional publish expecting %d stored at %d", m.Offset, offs[i]))
			}
			c.ref = append(c.ref, vRefRec{off: offs[i], ts: m.Timestamp, ep: m.LeaderEpoch, body: bodies[i], key: m.Key, val: m.Value, hdr: m.Headers})
		}
	} else if res == 1 {
		if !(cc && len(msgs) == 1 && msgs[0].Offset != -1 && msgs[0].Offset != next) && !c.l.IsReadonly() {
			c.violation("append-rejected", fmt.Sprintf("Append of an acceptable batch failed: %v", err))
		}
		if c.l.NewestOffset()+1 != next {
			c.violation("reject-changed-log", "a rejected Append changed the log end")
		}
	} else {
		c.violation("append-panic", "Append panicked: "+p)
	}
}

func (c *vLogCase) doAppendSet(msgs []*Message, base int64) {
	var rj []vM
	var bodies [][]byte
	for i, m := range msgs {
		b := vEncode(m)
		bodies = append(bodies, b)
		rj = append(rj, vM{"off": base + int64(i), "ts": m.Timestamp, "ep": m.LeaderEpoch, "body": vHex(b)})
	}
	ms, _, err := newMessageSetFromProto(base, 0, msgs, false)
	if err != nil {
		panic(err)
	}
	var offs []int64
	res := 0
	p := vCatch(func() { offs, err = c.l.AppendMessageSet(ms) })
	if p != "" {
		res = 2
		c.violation("appendset-panic", "AppendMessageSet panicked: "+p)
	} else if err != nil {
		res = 1
		c.violation("appendset-error", fmt.Sprintf("AppendMessageSet failed: %v", err))
	}
	c.ops = append(c.ops, vM{"op": "aset", "recs": rj, "res": res, "offs": offs})
	c.stats["aset"]++
	if res == 0 {
		for i, m := range msgs {
			if offs[i] != base+int64(i) {
				c.violation("appendset-offsets", fmt.Sprintf("AppendMessageSet returned %v for base %d", offs, base))
				break
			}
			c.ref = append(c.ref, vRefRec{off: offs[i], ts: m.Timestamp, ep: m.LeaderEpoch, body: bodies[i], key: m.Key, val: m.Value, hdr: m.Headers})
		}
	}
}

func (c *vLogCase) doTruncate(o int64) {
	var err error
	p := vCatch(func() { err = c.l.Truncate(o) })
	c.ops = append(c.ops, vM{"op": "trunc", "o": o})
	c.stats["trunc"]++
	if p != "" || err != nil {
		c.violation("truncate-failed", fmt.Sprintf("Truncate(%d): %v %s", o, err, p))
		return
	}
	n := sort.Search(len(c.ref), func(i int) bool { return c.ref[i].off >= o })
	if n < len(c.ref) {
		c.stats["trunc-removes"]++
	}
	c.ref = c.ref[:n]
}

func (c *vLogCase) doReopen() {
	if err := c.l.Close(); err != nil {
		c.violation("close-failed", err.Error())
		return
	}
	c.ops = append(c.ops, vM{"op": "reopen"})
	c.stats["reopen"]++
	for _, lr := range c.readers {
		lr.dead = true // readers do not survive Close
	}
	p := vCatch(func() { c.open() })
	if p != "" {
		c.violation("reopen-panic", "commitlog.New panicked on reopen: "+p)
	}
}

func (c *vLogCase) doHW(h int64) {
	c.l.SetHighWatermark(h)
	c.ops = append(c.ops, vM{"op": "hw", "h": h})
	c.stats["hw"]++
}

func (c *vLogCase) doReadonly(b bool) {
	c.l.SetReadonly(b)
	c.ops = append(c.ops, vM{"op": "ro", "b": b})
	c.stats["ro"]++
}

// doRead creates a reader at offset o and reads until it would block.
func (c *vLogCase) doRead(o int64, unc bool) {
	var got []vM
	var gotRecs []vRefRec
	end := "wait"
	p := vCatch(func() {
		rd, err := c.l.NewReader(o, unc)
		if err != nil {
			if err == ErrSegmentNotFound {
				end = "notfound"
			} else {
				end = "other:" + err.Error()
			}
			return
		}
		hb := make([]byte, 28)
		for n := 0; n < 100000; n++ {
			var ctx context.Context
			var cancel context.CancelFunc
			if unc {
				ctx, cancel = context.WithCancel(context.Background())
				cancel() // an uncommitted reader only looks at the context when it is about to block
			} else {
				ctx, cancel = context.WithTimeout(context.Background(), 4*time.Millisecond)
			}
			m, off, ts, ep, err := rd.ReadMessage(ctx, hb)
			cancel()
			if err != nil {
				if err == ErrCommitLogReadonly || pkgErrors.Cause(err) == ErrCommitLogReadonly {
					end = "readonly"
				} else if pkgErrors.Cause(err).Error() == "EOF" {
					end = "wait"
				} else {
					end = "other:" + err.Error()
				}
				return
			}
			body := append([]byte{}, m...)
			got = append(got, vM{"off": off, "ts": ts, "ep": ep, "body": vHex(body)})
			gotRecs = append(gotRecs, vRefRec{off: off, ts: ts, ep: ep, body: body, key: m.Key(), val: m.Value(), hdr: m.Headers()})
		}
	})
	if p != "" {
		end = "panic"
		c.violation("read-panic", fmt.Sprintf("reader from %d (uncommitted=%v) panicked: %s", o, unc, p))
	}
	endCode := map[string]int{"wait": 0, "readonly": 1, "notfound": 2}[end]
	if _, ok := map[string]int{"wait": 0, "readonly": 1, "notfound": 2}[end]; !ok {
		endCode = 3
	}
	c.ops = append(c.ops, vM{"op": "read", "o": o, "unc": unc, "recs": got, "end": endCode, "endtxt": end})
	c.stats[fmt.Sprintf("read/unc=%v/%s", unc, []string{"wait", "readonly", "notfound", "other"}[endCode])]++
	if end == "panic" {
		return
	}
	// direct oracle: exactly the retained records with offset >= o (and <= hw when committed)
	hw := c.l.HighWatermark()
	var want []vRefRec
	for _, r := range c.ref {
		if r.off >= o && (unc || r.off <= hw) {
			want = append(want, r)
		}
	}
	if end == "notfound" || endCode == 3 {
		if len(want) > 0 {
			c.violation("read-missing", fmt.Sprintf("reader from %d (uncommitted=%v) ended with %q but %d retained records qualify", o, unc, end, len(want)))
		}
		return
	}
	if len(gotRecs) != len(want) {
		c.violation("read-content", fmt.Sprintf("reader from %d (uncommitted=%v, hw=%d) returned %d records, the log holds %d in range", o, unc, hw, len(gotRecs), len(want)))
		return
	}
	for i := range want {
		g, w := gotRecs[i], want[i]
		if g.off != w.off || g.ts != w.ts || g.ep != w.ep || !bytes.Equal(g.body, w.body) {
			c.violation("read-content", fmt.Sprintf("reader from %d (uncommitted=%v): record %d is (off %d ts %d ep %d), stored was (off %d ts %d ep %d)", o, unc, i, g.off, g.ts, g.ep, w.off, w.ts, w.ep))
			return
		}
		if !vSameBytes(g.key, w.key) || !vSameBytes(g.val, w.val) || !vSameHeaders(g.hdr, w.hdr) {
			c.violation("read-fields", fmt.Sprintf("reader from %d: key/value/headers of offset %d differ from what was stored", o, g.off))
			return
		}
		if !unc && g.off > hw {
			c.violation("read-above-hw", fmt.Sprintf("committed reader returned offset %d above hw %d", g.off, hw))
		}
	}
}

// readUntilBlock reads from rd until it would block.
func vReadUntilBlock(rd *Reader, unc bool) (got []vM, recs []vRefRec, end string) {
	end = "wait"
	hb := make([]byte, 28)
	for n := 0; n < 100000; n++ {
		var ctx context.Context
		var cancel context.CancelFunc
		if unc {
			ctx, cancel = context.WithCancel(context.Background())
			cancel()
		} else {
			ctx, cancel = context.WithTimeout(context.Background(), 4*time.Millisecond)
		}
		m, off, ts, ep, err := rd.ReadMessage(ctx, hb)
		cancel()
		if err != nil {
			if err == ErrCommitLogReadonly || pkgErrors.Cause(err) == ErrCommitLogReadonly {
				end = "readonly"
			} else if pkgErrors.Cause(err).Error() == "EOF" {
				end = "wait"
			} else {
				end = "other:" + err.Error()
			}
			return
		}
		body := append([]byte{}, m...)
		got = append(got, vM{"off": off, "ts": ts, "ep": ep, "body": vHex(body)})
		recs = append(recs, vRefRec{off: off, ts: ts, ep: ep, body: body, key: m.Key(), val: m.Value(), hdr: m.Headers()})
	}
	return
}

func (c *vLogCase) doReaderOpen(o int64, unc bool) {
	id := len(c.readers)
	var rd *Reader
	var err error
	p := vCatch(func() { rd, err = c.l.NewReader(o, unc) })
	ok := p == "" && err == nil
	c.ops = append(c.ops, vM{"op": "ropen", "id": id, "o": o, "unc": unc, "ok": ok})
	c.stats[fmt.Sprintf("ropen/unc=%v/ok=%v", unc, ok)]++
	lr := &vLiveReader{id: id, rd: rd, unc: unc, next: o, dead: !ok}
	c.readers = append(c.readers, lr)
	if p != "" {
		c.violation("reader-open-panic", "NewReader panicked: "+p)
	} else if err != nil && !(unc && err == ErrSegmentNotFound && o > c.l.NewestOffset()) {
		c.violation("reader-open-failed", fmt.Sprintf("NewReader(%d, %v) failed: %v", o, unc, err))
	}
}

func (c *vLogCase) doReaderNext(lr *vLiveReader) {
	var got []vM
	var recs []vRefRec
	end := ""
	p := vCatch(func() { got, recs, end = vReadUntilBlock(lr.rd, lr.unc) })
	if p != "" {
		c.ops = append(c.ops, vM{"op": "rnext", "id": lr.id, "recs": got, "end": 3})
		c.violation("live-reader-panic", fmt.Sprintf("live reader %d panicked: %s", lr.id, p))
		lr.dead = true
		return
	}
	codes := map[string]int{"wait": 0, "readonly": 1, "notfound": 2}
	ec, ok := codes[end]
	if !ok {
		ec = 3
	}
	c.ops = append(c.ops, vM{"op": "rnext", "id": lr.id, "recs": got, "end": ec, "endtxt": end})
	c.stats[fmt.Sprintf("rnext/unc=%v/n>0=%v", lr.unc, len(got) > 0)]++
	hw := c.l.HighWatermark()
	var want []vRefRec
	for _, r := range c.ref {
		if r.off >= lr.next && (lr.unc || r.off <= hw) {
			want = append(want, r)
		}
	}
	if ec == 3 {
		c.violation("live-reader-error", fmt.Sprintf("live reader %d (uncommitted=%v, next offset %d) failed: %s", lr.id, lr.unc, lr.next, end))
		lr.dead = true
		return
	}
	if len(recs) != len(want) {
		c.violation("live-reader-content", fmt.Sprintf("live reader %d (uncommitted=%v) positioned at %d returned %d records, %d are due (hw %d)", lr.id, lr.unc, lr.next, len(recs), len(want), hw))
		lr.dead = true
		return
	}
	for i := range want {
		g, w := recs[i], want[i]
		if g.off != w.off || g.ts != w.ts || g.ep != w.ep || !bytes.Equal(g.body, w.body) {
			c.violation("live-reader-content", fmt.Sprintf("live reader %d positioned at %d: record %d has offset %d, due is offset %d", lr.id, lr.next, i, g.off, w.off))
			lr.dead = true
			return
		}
	}
	if len(recs) > 0 {
		lr.next = recs[len(recs)-1].off + 1
	}
}

func (c *vLogCase) liveReaders() []*vLiveReader {
	var out []*vLiveReader
	for _, lr := range c.readers {
		if !lr.dead {
			out = append(out, lr)
		}
	}
	return out
}

func vSameBytes(a, b []byte) bool {
	if (a == nil) != (b == nil) {
		return false
	}
	return bytes.Equal(a, b)
}

func vSameHeaders(a, b map[string][]byte) bool {
	if len(a) != len(b) {
		return false
	}
	for k, v := range a {
		w, ok := b[k]
		if !ok || !bytes.Equal(v, w) {
			return false
		}
	}
	return true
}

func (c *vLogCase) readSweep(r *vRand, all bool) {
	starts := map[int64]bool{0: true}
	nw := c.l.NewestOffset()
	starts[nw] = true
	starts[nw+1] = true
	starts[c.l.HighWatermark()] = true
	starts[c.l.HighWatermark()+1] = true
	for _, s := range c.l.Segments() {
		starts[s.BaseOffset] = true
		starts[s.BaseOffset-1] = true
		starts[s.BaseOffset+1] = true
	}
	var list []int64
	for s := range starts {
		if s >= 0 {
			list = append(list, s)
		}
	}
	sort.Slice(list, func(i, j int) bool { return list[i] < list[j] })
	if !all && len(list) > 6 {
		// keep a random subset
		for len(list) > 6 {
			i := r.intn(len(list))
			list = append(list[:i], list[i+1:]...)
		}
	}
	for _, s := range list {
		c.doRead(s, true)
		if c.l.HighWatermark() >= 0 || r.intn(3) == 0 {
			c.doRead(s, false)
		}
	}
}

func vNewLogCase(out *vOut, id int, profile string, opts Options, stats map[string]int) *vLogCase {
	dir := filepath.Join(os.Getenv("VERIF_WORK"), fmt.Sprintf("log_%s_%d", profile, id))
	os.RemoveAll(dir)
	opts.Path = dir
	opts.Name = "verif"
	opts.CleanerInterval = time.Hour
	opts.HWCheckpointInterval = time.Hour
	c := &vLogCase{id: id, profile: profile, dir: dir, opts: opts, out: out, nextTs: 1000, epoch: 1, stats: stats}
	if !vNoOpen {
		c.open()
	}
	return c
}

var vNoOpen bool // the C05 driver opens the log itself (the first open passes crash points too)

func (c *vLogCase) finish() {
	if c.l != nil {
		vCatch(func() { c.l.Close() })
	}
	os.RemoveAll(c.dir)
	c.out.emit(c.caseJSON())
}

func vRunC01Case(out *vOut, r *vRand, id int, stats map[string]int) {
	maxb := int64([]int{70, 100, 150, 220, 400, 1 << 20}[r.intn(6)])
	c := vNewLogCase(out, id, "c01", Options{MaxSegmentBytes: maxb}, stats)
	if c.l == nil {
		return
	}
	nops := 4 + r.intn(22)
	for i := 0; i < nops && !c.viol; i++ {
		switch r.pick(10, 4, 3, 2, 3, 1, 3, 5) {
		case 6: // open a live reader
			nw := c.l.NewestOffset()
			if r.intn(2) == 0 {
				c.doReaderOpen(int64(r.intn(int(nw)+2)), true)
			} else {
				// committed readers at or below hw+1 (a start beyond that is C10's concern)
				c.doReaderOpen(int64(r.intn(int(c.l.HighWatermark())+2)), false)
			}
		case 7:
			if live := c.liveReaders(); len(live) > 0 {
				c.doReaderNext(live[r.intn(len(live))])
			}
		case 0:
			n := 1 + r.pick(5, 3, 2, 1, 1)
			var msgs []*Message
			for j := 0; j < n; j++ {
				msgs = append(msgs, c.genMsg(r, nil))
			}
			c.doAppend(msgs)
		case 1:
			n := 1 + r.intn(3)
			var msgs []*Message
			for j := 0; j < n; j++ {
				msgs = append(msgs, c.genMsg(r, nil))
			}
			c.doAppendSet(msgs, c.l.NewestOffset()+1)
		case 2:
			nw := c.l.NewestOffset()
			var o int64
			switch r.pick(5, 2, 2, 1) {
			case 0:
				o = int64(r.intn(int(nw) + 2))
			case 1: // at a segment base
				segs := c.l.Segments()
				o = segs[r.intn(len(segs))].BaseOffset
			case 2:
				o = nw
			default:
				o = nw + 1 + int64(r.intn(3))
			}
			if hw := c.l.HighWatermark(); o <= hw {
				// committed messages are never truncated (C02); keep the HW inside the log
				o = hw + 1
			}
			for _, lr := range c.liveReaders() {
				if o < lr.next {
					o = lr.next // what a live reader already consumed stays
				}
				if lr.unc && o == lr.next {
					// An uncommitted reader standing exactly at a truncation point that is a segment base
					// fails with "segment has been closed" (the segment is deleted, not replaced). The
					// server never truncates under an uncommitted reader (replication readers live on
					// leaders, truncation happens on followers), so this alignment is left out.
					o = lr.next + 1
				}
			}
			c.doTruncate(o)
		case 3:
			c.doReopen()
			if c.l == nil {
				c.finish()
				return
			}
		case 4:
			nw := c.l.NewestOffset()
			if nw >= 0 {
				c.doHW(int64(r.intn(int(nw) + 1)))
			}
		default:
			c.readSweep(r, false)
		}
		c.state()
	}
	if !c.viol {
		for _, lr := range c.liveReaders() {
			c.doReaderNext(lr)
		}
	}
	if !c.viol {
		c.readSweep(r, true)
	}
	if !c.viol && c.l != nil && !c.l.IsReadonly() {
		c.tailPhase(r)
	}
	c.finish()
}

// tailPhase: a reader that really waits at the end of the log (a blocking ReadMessage in its own
// goroutine, not the cancelled-context reads of the sweeps) while batches are appended, across at
// least one segment roll when the segment limit allows, delivers exactly what the log holds from
// its start on, in order, without a gap -- whatever truncations, rolls and reopens came before.
func (c *vLogCase) tailPhase(r *vRand) {
	unc := r.intn(3) != 0
	start := c.l.NewestOffset() + 1
	if len(c.ref) > 0 && r.intn(2) == 0 {
		start = c.ref[r.intn(len(c.ref))].off
	}
	if !unc {
		if hw := c.l.HighWatermark(); start > hw+1 {
			start = hw + 1
		}
	}
	rd, err := c.l.NewReader(start, unc)
	if err != nil {
		return // start positions a reader cannot take are the sweeps' concern
	}
	type rec struct {
		r   vRefRec
		err string
	}
	ctx, cancel := context.WithCancel(context.Background())
	got := make(chan rec, 1024)
	done := make(chan struct{})
	go func() {
		defer close(done)
		hb := make([]byte, 28)
		for {
			var x rec
			p := vCatch(func() {
				m, off, ts, ep, err := rd.ReadMessage(ctx, hb)
				if err != nil {
					x.err = err.Error()
					return
				}
				x.r = vRefRec{off: off, ts: ts, ep: ep, body: append([]byte{}, m...)}
			})
			if p != "" {
				x.err = "panic: " + p
			}
			got <- x
			if x.err != "" {
				return
			}
		}
	}()
	defer func() {
		cancel()
		<-done
	}()
	kind := map[bool]string{true: "uncommitted", false: "committed"}[unc]
	last := start - 1
	expect := func(what string) bool {
		for _, w := range c.ref {
			if w.off <= last || (!unc && w.off > c.l.HighWatermark()) {
				continue
			}
			last = w.off
			select {
			case x := <-got:
				if x.err != "" || x.r.off != w.off || x.r.ts != w.ts || x.r.ep != w.ep || !vSameBytes(x.r.body, w.body) {
					c.violation("tail-reader/"+kind, fmt.Sprintf("%s reader tailing the log from offset %d, %s: expected offset %d next, got offset %d %s (log holds %v)", kind, start, what, w.off, x.r.off, x.err, vOffs(c.ref)))
					return false
				}
			case <-time.After(3 * time.Second):
				c.violation("tail-reader/"+kind, fmt.Sprintf("%s reader tailing the log from offset %d, %s: offset %d is in the log but is not delivered within 3 s (log holds %v)", kind, start, what, w.off, vOffs(c.ref)))
				return false
			}
		}
		return true
	}
	if !expect("catching up") {
		return
	}
	c.stats["tail/"+kind]++
	segs0 := len(c.l.Segments())
	for k := 0; k < 8 && !c.viol; k++ {
		time.Sleep(300 * time.Microsecond) // let the reader park at the end of the log
		n := 1 + r.intn(3)
		var msgs []*Message
		for j := 0; j < n; j++ {
			msgs = append(msgs, c.genMsg(r, nil))
		}
		c.doAppend(msgs)
		c.state()
		if c.viol {
			return
		}
		if !unc {
			c.doHW(c.l.NewestOffset())
			c.state()
		}
		if !expect(fmt.Sprintf("after append %d of the tail phase", k+1)) {
			return
		}
		if k >= 2 && len(c.l.Segments()) > segs0 {
			c.stats["tail/rolled"]++
			break
		}
	}
	select {
	case x := <-got:
		c.violation("tail-reader/"+kind, fmt.Sprintf("%s reader tailing the log from offset %d delivered offset %d %s beyond what was appended (log holds %v)", kind, start, x.r.off, x.err, vOffs(c.ref)))
	case <-time.After(200 * time.Microsecond):
	}
}

// C16: optimistic concurrency control at the commit-log level.
func vRunC16Case(out *vOut, r *vRand, id int, stats map[string]int) {
	maxb := int64([]int{70, 120, 300, 1 << 20}[r.intn(4)])
	c := vNewLogCase(out, id, "c16", Options{MaxSegmentBytes: maxb, ConcurrencyControl: true}, stats)
	if c.l == nil {
		return
	}
	nops := 5 + r.intn(25)
	for i := 0; i < nops && !c.viol; i++ {
		m := c.genMsg(r, nil)
		next := c.l.NewestOffset() + 1
		class := ""
		switch r.pick(5, 4, 3, 3, 1) {
		case 0:
			m.Offset = -1
			class = "waived"
		case 1:
			m.Offset = next
			class = "exact"
		case 2:
			m.Offset = next - 1 - int64(r.intn(3))
			if m.Offset < 0 {
				m.Offset = next + 1
			}
			class = "stale"
		case 3:
			m.Offset = next + 1 + int64(r.intn(3))
			class = "future"
		default:
			m.Offset = -2 - int64(r.intn(5))
			class = "negative"
		}
		stats["occ/"+class]++
		c.doAppend([]*Message{m})
		c.state()
		if r.intn(10) == 0 {
			c.doReopen()
			if c.l == nil {
				c.finish()
				return
			}
		}
	}
	if !c.viol {
		c.doRead(0, true)
	}
	c.finish()
}

// vHookLogger runs a callback when the delete cleaner announces that it starts: at that point
// commitLog.Clean has taken its snapshot of the segment list and not yet swapped in the result,
// so the callback's appends are "new segments appended while a clean runs".
type vHookLogger struct {
	logger.Logger
	hook   func()
	prefix string // "" = "Cleaning log" (the delete cleaner); "Compacting log" = the compactor
}

func (h *vHookLogger) Debugf(f string, a ...interface{}) {
	pf := h.prefix
	if pf == "" {
		pf = "Cleaning log"
	}
	if h.hook != nil && strings.HasPrefix(f, pf) {
		hk := h.hook
		h.hook = nil
		hk()
	}
}

// ---- C09: retention ----
type vSegInfo struct {
	base, count, pos, lastTs int64
}

func (c *vLogCase) segInfo() []vSegInfo {
	var out []vSegInfo
	segs := c.l.Segments()
	for i, s := range segs {
		// the last write time is taken from the driver's own record of what was appended, not from
		// the segment's field: the oracle must not inherit a wrong value from the implementation
		hi := int64(1) << 62
		if i+1 < len(segs) {
			hi = segs[i+1].BaseOffset
		}
		var last int64
		for _, rr := range c.ref {
			if rr.off >= s.BaseOffset && rr.off < hi {
				last = rr.ts
			}
		}
		out = append(out, vSegInfo{s.BaseOffset, s.MessageCount(), s.Position(), last})
	}
	return out
}

func (c *vLogCase) layout() {
	var lay [][]int64
	for _, s := range c.segInfo() {
		lay = append(lay, []int64{s.base, s.count, s.pos})
	}
	c.ops = append(c.ops, vM{"op": "layout", "lay": lay})
}

var vPinnedTTL int64

func (c *vLogCase) doCleanRetention(ttl int64) { c.doCleanRetentionDuring(ttl, nil) }

// doCleanRetentionDuring runs Clean(); batches (if any) are appended after Clean took its snapshot.
func (c *vLogCase) doCleanRetentionDuring(ttl int64, batches [][]*Message) {
	before := c.segInfo()
	nOld := len(before)
	vPinnedTTL = ttl
	var err error
	var during []vM
	if batches != nil && c.hook != nil {
		c.hook.hook = func() {
			for _, b := range batches {
				c.doAppend(b)
				during = append(during, c.ops[len(c.ops)-1])
				c.ops = c.ops[:len(c.ops)-1]
			}
			before = c.segInfo() // contents as the cleaner sees them
		}
	}
	p := vCatch(func() { err = c.l.Clean() })
	if c.hook != nil {
		c.hook.hook = nil
	}
	if batches != nil {
		c.ops = append(c.ops, vM{"op": "cleanroll", "ttl": ttl, "during": during})
		c.stats["clean-during-appends"]++
		if len(before) > nOld {
			c.stats["clean-during-roll"]++
		}
	} else {
		c.ops = append(c.ops, vM{"op": "clean", "ttl": ttl})
	}
	c.stats["clean"]++
	if p != "" || err != nil {
		c.violation("clean-failed", fmt.Sprintf("Clean: %v %s", err, p))
		return
	}
	after := c.segInfo()
	// direct oracle (the property's words)
	d := len(before) - len(after)
	if d < 0 || len(after) == 0 {
		c.violation("retention-not-suffix", fmt.Sprintf("Clean left %d of %d segments", len(after), len(before)))
		return
	}
	for i := range after {
		if after[i] != before[d+i] {
			c.violation("retention-not-suffix", fmt.Sprintf("segments after Clean are not a suffix of the segments before: %v vs %v", after, before))
			return
		}
	}
	if d > 0 {
		c.stats["clean-removes"]++
	}
	if d == len(before)-1 && d > 0 {
		c.stats["clean-leaves-only-newest"]++
	}
	var msgs, bytes int64
	for _, s := range after {
		msgs += s.count
		bytes += s.pos
	}
	if batches != nil {
		// with appends racing the clean only suffix / newest-kept are demanded here
		first := after[0].base
		n := sort.Search(len(c.ref), func(i int) bool { return c.ref[i].off >= first })
		c.ref = c.ref[n:]
		return
	}
	if len(after) > 1 {
		if c.opts.MaxLogMessages > 0 && msgs > c.opts.MaxLogMessages {
			c.violation("retention-limit-messages", fmt.Sprintf("%d messages retained in %d segments, limit %d", msgs, len(after), c.opts.MaxLogMessages))
		}
		if c.opts.MaxLogBytes > 0 && bytes > c.opts.MaxLogBytes {
			c.violation("retention-limit-bytes", fmt.Sprintf("%d bytes retained in %d segments, limit %d", bytes, len(after), c.opts.MaxLogBytes))
		}
		if c.opts.MaxLogAge > 0 {
			// the age limit removes expired segments from the front and stops at the first one that is
			// not expired (removing an expired segment behind a younger one would leave a hole): every
			// segment before that one must be gone.  With monotonic write times this is "no retained
			// segment but the newest is expired".
			stop := len(before) - 1
			for k := 0; k < len(before)-1; k++ {
				if before[k].lastTs >= ttl {
					stop = k
					break
				}
			}
			for i, s := range after[:len(after)-1] {
				if d+i < stop {
					c.violation("retention-limit-age", fmt.Sprintf("segment %d last written at %d retained, cut-off %d", s.base, s.lastTs, ttl))
				}
			}
		}
	}
	if d > 0 {
		// minimality: keeping the newest removed segment as well must violate some limit
		x := before[d-1]
		needed := (c.opts.MaxLogAge > 0 && x.lastTs < ttl) ||
			(c.opts.MaxLogMessages > 0 && msgs+x.count > c.opts.MaxLogMessages) ||
			(c.opts.MaxLogBytes > 0 && bytes+x.pos > c.opts.MaxLogBytes)
		if !needed {
			c.violation("retention-not-minimal", fmt.Sprintf("segment %d was removed although no limit required it (limits msgs=%d bytes=%d age-cutoff=%d; kept %d msgs %d bytes)", x.base, c.opts.MaxLogMessages, c.opts.MaxLogBytes, ttl, msgs, bytes))
		}
	}
	// the abstract log loses exactly the records of the removed segments
	first := after[0].base
	n := sort.Search(len(c.ref), func(i int) bool { return c.ref[i].off >= first })
	c.ref = c.ref[n:]
}

func vRunC09Case(out *vOut, r *vRand, id int, stats map[string]int) {
	maxb := int64([]int{70, 100, 150, 220}[r.intn(4)])
	opts := Options{MaxSegmentBytes: maxb}
	switch r.pick(3, 3, 3, 2, 2, 2) {
	case 0:
		opts.MaxLogMessages = int64(1 + r.intn(12))
	case 1:
		opts.MaxLogBytes = int64(60 + r.intn(600))
	case 2:
		opts.MaxLogAge = time.Nanosecond
	case 3:
		opts.MaxLogMessages = int64(1 + r.intn(12))
		opts.MaxLogBytes = int64(60 + r.intn(600))
	case 4:
		opts.MaxLogMessages = int64(1 + r.intn(12))
		opts.MaxLogBytes = int64(60 + r.intn(600))
		opts.MaxLogAge = time.Nanosecond
	default:
		opts.MaxLogAge = time.Nanosecond
		opts.MaxLogBytes = int64(60 + r.intn(600))
	}
	lg := logger.NewLogger(0)
	lg.Silent(true)
	hk := &vHookLogger{Logger: lg}
	opts.Logger = hk
	c := vNewLogCase(out, id, "c09", opts, stats)
	if c.l == nil {
		return
	}
	c.hook = hk
	c.clockSteps = opts.MaxLogAge > 0 && r.intn(2) == 0
	old := computeTTL
	computeTTL = func(time.Duration) int64 { return vPinnedTTL }
	defer func() { computeTTL = old }()
	nops := 6 + r.intn(22)
	for i := 0; i < nops && !c.viol; i++ {
		switch r.pick(10, 4, 2, 1, 2) {
		case 0:
			n := 1 + r.pick(5, 3, 2)
			var msgs []*Message
			for j := 0; j < n; j++ {
				msgs = append(msgs, c.genMsg(r, nil))
			}
			c.doAppend(msgs)
		case 1:
			// cut-off somewhere around the message times written so far
			ttl := int64(1000 + r.intn(int(c.nextTs-1000)+6))
			// last-write times in order before the FIRST clean: the hypothesis of C09_repeated_clean_idempotent
			// (C09_repeat_needs_one_clock: without it the byte or message limit can expose an expired segment
			// that the age pass had stopped in front of, and a second Clean rightly removes it)
			sorted := true
			if first := c.segInfo(); true {
				for k := 1; k < len(first); k++ {
					if first[k].lastTs < first[k-1].lastTs {
						sorted = false
					}
				}
			}
			c.layout()
			c.doCleanRetention(ttl)
			c.layout()
			if !c.viol && r.intn(3) == 0 {
				// repeated clean, same limits and cut-off: nothing more may go
				before := c.segInfo()
				c.doCleanRetention(ttl)
				c.layout()
				c.stats["clean-repeated-same-cutoff"]++
				if after := c.segInfo(); !c.viol && len(after) != len(before) {
					if sorted {
						c.violation("retention-repeat-removes", fmt.Sprintf("a second Clean with the same cut-off %d removed %d more segments: %v -> %v", ttl, len(before)-len(after), before, after))
					} else {
						c.stats["clean-repeated-removes-unordered-times"]++
					}
				}
			}
		case 4:
			// a clean during which new batches arrive (and usually roll a segment)
			ttl := int64(1000 + r.intn(int(c.nextTs-1000)+6))
			var batches [][]*Message
			for b := 0; b < 1+r.intn(3); b++ {
				var msgs []*Message
				for j := 0; j < 1+r.intn(3); j++ {
					msgs = append(msgs, c.genMsg(r, nil))
				}
				batches = append(batches, msgs)
			}
			c.layout()
			c.doCleanRetentionDuring(ttl, batches)
			c.layout()
		case 2:
			c.doReopen()
			if c.l == nil {
				c.finish()
				return
			}
			// after a restart: a cut-off that falls inside a segment's write-time range
			if segs := c.l.Segments(); c.opts.MaxLogAge > 0 && len(segs) > 1 {
				i := r.intn(len(segs) - 1)
				lo, hi := segs[i].BaseOffset, segs[i+1].BaseOffset
				var first, last int64 // write times of the segment's first and last record, from the driver's own record
				for _, rr := range c.ref {
					if rr.off >= lo && rr.off < hi {
						if first == 0 {
							first = rr.ts
						}
						last = rr.ts
					}
				}
				if last > first {
					c.state()
					c.layout()
					c.doCleanRetention(first + 1 + int64(r.intn(int(last-first))))
					c.layout()
					c.stats["clean-after-reopen-straddling"]++
				}
			}
		default:
			c.readSweep(r, false)
		}
		c.state()
	}
	if !c.viol {
		c.layout()
		c.doCleanRetention(int64(1000 + r.intn(int(c.nextTs-1000)+6)))
		c.layout()
		c.state()
		c.readSweep(r, true)
	}
	c.finish()
}

// ---- C08: compaction ----

// doCompact runs Clean() on a log with Compact = true and judges the outcome with an independently
// computed survivor set (the property's own words).
func (c *vLogCase) doCompact() { c.doCompactDuring(nil) }

// doCompactDuring runs Clean() on a compacted log; batches (if any) are appended when the
// compactor starts, i.e. after Clean took its snapshot of the segment list.
func (c *vLogCase) doCompactDuring(batches [][]*Message) {
	hw := c.l.HighWatermark()
	segs := c.l.Segments()
	lastBase := segs[len(segs)-1].BaseOffset
	nsegs := len(segs)
	var err error
	var during []vM
	fired := false
	if batches != nil && c.hook != nil {
		c.hook.hook = func() {
			fired = true
			for _, b := range batches {
				c.doAppend(b)
				during = append(during, c.ops[len(c.ops)-1])
				c.ops = c.ops[:len(c.ops)-1]
			}
		}
	}
	p := vCatch(func() { err = c.l.Clean() })
	if c.hook != nil {
		c.hook.hook = nil
	}
	if fired {
		c.ops = append(c.ops, vM{"op": "cleancroll", "ttl": 0, "during": during})
		c.stats["compact-during-appends"]++
		if len(c.l.Segments()) > 0 && c.l.Segments()[len(c.l.Segments())-1].BaseOffset != lastBase {
			c.stats["compact-during-roll"]++
		}
	} else {
		c.ops = append(c.ops, vM{"op": "cleanc", "ttl": 0})
	}
	c.stats["compact"]++
	if p != "" || err != nil {
		c.violation("compact-failed", fmt.Sprintf("Clean: %v %s", err, p))
		return
	}
	// survivors demanded by the property: latest committed record of every key, every record without
	// a key, everything at or above the HW, everything in the newest segment
	latest := map[string]int64{}
	for _, r := range c.ref {
		if r.key != nil && r.off <= hw {
			latest[string(r.key)+"|"+fmt.Sprint(len(r.key))] = r.off
		}
	}
	var must []vRefRec
	removedAny := false
	for _, r := range c.ref {
		keep := r.key == nil || r.off >= hw || r.off >= lastBase || nsegs <= 1
		if !keep {
			keep = latest[string(r.key)+"|"+fmt.Sprint(len(r.key))] == r.off
		}
		if keep {
			must = append(must, r)
		} else {
			removedAny = true
		}
	}
	if removedAny {
		c.stats["compact-may-remove"]++
	}
	// what is there now
	var got []vRefRec
	rp := vCatch(func() {
		rd, err := c.l.NewReader(c.l.OldestOffsetOrZero(), true)
		if err != nil {
			return
		}
		_, got, _ = vReadUntilBlock(rd, true)
	})
	if rp != "" {
		c.violation("read-after-compact-panic", "reading the compacted log panicked: "+rp)
		return
	}
	// got must be a subsequence of ref (unchanged records) and a superset of must
	byOff := map[int64]vRefRec{}
	for _, r := range c.ref {
		byOff[r.off] = r
	}
	prev := int64(-1)
	gotSet := map[int64]bool{}
	for _, g := range got {
		w, ok := byOff[g.off]
		if !ok || g.off <= prev || !bytes.Equal(g.body, w.body) || g.ts != w.ts || g.ep != w.ep {
			c.violation("compact-changed-record", fmt.Sprintf("after compaction offset %d is out of order or differs from what was stored", g.off))
			return
		}
		prev = g.off
		gotSet[g.off] = true
	}
	for _, m := range must {
		if !gotSet[m.off] {
			c.violation("compact-lost-record", fmt.Sprintf("compaction removed offset %d (key %q nil=%v, hw %d, newest segment base %d) which must survive", m.off, m.key, m.key == nil, hw, lastBase))
			return
		}
	}
	if len(got) < len(c.ref) {
		c.stats["compact-removed"]++
	}
	c.ref = got // the abstract log is now the survivor sequence
}

// doReverseRead creates a reverse reader and drains it.
func (c *vLogCase) doReverseRead(start int64, unc bool, stop int64) {
	var got []vM
	var gotRecs []vRefRec
	found := true
	p := vCatch(func() {
		rd, err := c.l.NewReverseReader(start, unc)
		if err != nil {
			found = false
			return
		}
		if stop >= 0 {
			rd.SetStopOffset(stop)
		}
		hb := make([]byte, 28)
		for n := 0; n < 100000; n++ {
			m, off, ts, ep, err := rd.ReadMessage(context.Background(), hb)
			if err != nil {
				return
			}
			body := append([]byte{}, m...)
			got = append(got, vM{"off": off, "ts": ts, "ep": ep, "body": vHex(body)})
			gotRecs = append(gotRecs, vRefRec{off: off, ts: ts, ep: ep, body: body})
		}
	})
	c.ops = append(c.ops, vM{"op": "rread", "unc": unc, "start": start, "stop": stop, "found": found, "recs": got})
	c.stats[fmt.Sprintf("rread/unc=%v/found=%v", unc, found)]++
	if p != "" {
		c.violation("reverse-read-panic", fmt.Sprintf("reverse reader from %d panicked: %s", start, p))
		return
	}
	// direct oracle: exactly the retained records with stop <= offset <= effective start, newest first
	hw := c.l.HighWatermark()
	eff := start
	if !unc {
		if hw == -1 {
			if found && len(gotRecs) > 0 {
				c.violation("reverse-read-uncommitted", "committed reverse reader returned records although nothing is committed")
			}
			return
		}
		if start > hw || start == -1 {
			eff = hw
		}
	}
	var want []vRefRec
	for i := len(c.ref) - 1; i >= 0; i-- {
		r := c.ref[i]
		if r.off <= eff && (stop < 0 || r.off >= stop) {
			want = append(want, r)
		}
	}
	if !found {
		if len(want) > 0 && eff <= c.l.NewestOffset() {
			c.violation("reverse-read-missing", fmt.Sprintf("reverse reader from %d (uncommitted=%v) not created but %d records qualify", start, unc, len(want)))
		}
		return
	}
	if len(gotRecs) != len(want) {
		c.violation("reverse-read-content", fmt.Sprintf("reverse reader from %d (uncommitted=%v, hw=%d, stop=%d) returned %d records %v, %d qualify", start, unc, hw, stop, len(gotRecs), vOffs(gotRecs), len(want)))
		return
	}
	for i := range want {
		if gotRecs[i].off != want[i].off || !bytes.Equal(gotRecs[i].body, want[i].body) {
			c.violation("reverse-read-content", fmt.Sprintf("reverse reader from %d: position %d has offset %d, expected %d", start, i, gotRecs[i].off, want[i].off))
			return
		}
	}
}

func vOffs(rs []vRefRec) []int64 {
	var o []int64
	for _, r := range rs {
		o = append(o, r.off)
	}
	return o
}

func (l *commitLog) OldestOffsetOrZero() int64 {
	if o := l.OldestOffset(); o >= 0 {
		return o
	}
	return l.NewestOffset() + 1
}

func vRunC08Case(out *vOut, r *vRand, id int, stats map[string]int) {
	maxb := int64([]int{70, 100, 150, 220}[r.intn(4)])
	opts := Options{MaxSegmentBytes: maxb, Compact: true, CompactMaxGoroutines: []int{1, 2, 10}[r.intn(3)]}
	lg := logger.NewLogger(0)
	lg.Silent(true)
	hk := &vHookLogger{Logger: lg, prefix: "Compacting log"}
	opts.Logger = hk
	c := vNewLogCase(out, id, "c08", opts, stats)
	if c.l == nil {
		return
	}
	c.hook = hk
	// key pool: nil, empty, and a few short keys
	pool := [][]byte{nil, {}, []byte("a"), []byte("b")}
	switch r.intn(4) {
	case 0:
		pool = [][]byte{[]byte("a"), []byte("b"), []byte("c")}
	case 1:
		pool = [][]byte{nil, []byte("a")}
	case 2:
		pool = [][]byte{{}, []byte("a"), nil, nil}
	}
	nops := 6 + r.intn(20)
	for i := 0; i < nops && !c.viol; i++ {
		switch r.pick(10, 3, 3, 2, 1, 2, 2, 4) {
		case 6:
			// readers that stay open across compactions: having crossed the gaps one compaction left, they go on
			// from where they are after the next one has replaced the segment under them
			nw := c.l.NewestOffset()
			if r.intn(2) == 0 {
				c.doReaderOpen(int64(r.intn(int(nw)+2)), true)
			} else {
				c.doReaderOpen(int64(r.intn(int(c.l.HighWatermark())+2)), false)
			}
		case 7:
			if live := c.liveReaders(); len(live) > 0 {
				c.doReaderNext(live[r.intn(len(live))])
			}
		case 0:
			n := 1 + r.pick(5, 3, 2)
			var msgs []*Message
			for j := 0; j < n; j++ {
				msgs = append(msgs, c.genMsg(r, pool))
			}
			c.doAppend(msgs)
		case 1:
			nw := c.l.NewestOffset()
			if nw >= 0 {
				c.doHW(int64(r.intn(int(nw) + 1)))
			}
		case 2:
			c.layout()
			c.doCompact()
			c.layout()
		case 5:
			// a compaction during which new batches arrive (and usually roll a segment)
			var batches [][]*Message
			for b := 0; b < 1+r.intn(3); b++ {
				var msgs []*Message
				for j := 0; j < 1+r.intn(3); j++ {
					msgs = append(msgs, c.genMsg(r, pool))
				}
				batches = append(batches, msgs)
			}
			c.layout()
			c.doCompactDuring(batches)
			c.layout()
		case 3:
			nw := c.l.NewestOffset()
			c.doReverseRead(int64(r.intn(int(nw)+3))-1, r.intn(2) == 0, int64(r.intn(int(nw)+3))-1)
		default:
			c.doReopen()
			if c.l == nil {
				c.finish()
				return
			}
		}
		c.state()
	}
	if !c.viol {
		c.layout()
		c.doCompact()
		c.layout()
		c.state()
	}
	if !c.viol {
		for _, lr := range c.liveReaders() {
			c.doReaderNext(lr)
		}
	}
	if !c.viol {
		c.readSweep(r, true)
	}
	if !c.viol {
		// reverse readers from every offset, committed and uncommitted
		nw := c.l.NewestOffset()
		for o := int64(-1); o <= nw+1 && !c.viol; o++ {
			c.doReverseRead(o, true, -1)
			c.doReverseRead(o, false, -1)
		}
		for k := 0; k < 4 && !c.viol; k++ {
			c.doReverseRead(int64(r.intn(int(nw)+2)), r.intn(2) == 0, int64(r.intn(int(nw)+2)))
		}
	}
	c.finish()
}

// ---- C03 (sequential part): committed readers that live across rolls, HW moves, truncations and
// compactions that replace the segment holding the HW.
func vRunC03Case(out *vOut, r *vRand, id int, stats map[string]int) {
	maxb := int64([]int{90, 140, 220}[r.intn(3)])
	compact := r.intn(3) == 0
	opts := Options{MaxSegmentBytes: maxb, Compact: compact, CompactMaxGoroutines: 1}
	retention := !compact && r.intn(2) == 0
	if retention {
		opts.MaxLogMessages = int64(3 + r.intn(6))
	}
	c := vNewLogCase(out, id, "c03", opts, stats)
	if c.l == nil {
		return
	}
	var pool [][]byte
	if compact {
		pool = [][]byte{[]byte("a"), []byte("b"), nil}
	}
	appendSome := func(k int) {
		for b := 0; b < k && !c.viol; b++ {
			n := 1 + r.intn(3)
			var msgs []*Message
			for j := 0; j < n; j++ {
				msgs = append(msgs, c.genMsg(r, pool))
			}
			c.doAppend(msgs)
		}
	}
	appendSome(4 + r.intn(6))
	nops := 6 + r.intn(14)
	for i := 0; i < nops && !c.viol; i++ {
		nw := c.l.NewestOffset()
		hw := c.l.HighWatermark()
		switch r.pick(5, 4, 4, 6, 3, 2) {
		case 0:
			appendSome(1 + r.intn(2))
		case 1:
			if nw >= 0 {
				h := int64(r.intn(int(nw) + 1))
				// retention that outruns replication (HW below the oldest retained offset) is not
				// part of this profile: the HW stays inside the retained log
				if od := c.l.OldestOffset(); retention && h < od {
					h = od
				}
				c.doHW(h)
			}
		case 2: // a committed reader somewhere at or below the HW (or parked just above it)
			c.doReaderOpen(int64(r.intn(int(hw)+2)), false)
		case 3:
			if live := c.liveReaders(); len(live) > 0 {
				c.doReaderNext(live[r.intn(len(live))])
			}
		case 4: // truncate the uncommitted tail: inside the segment that holds the HW when possible
			if nw > hw {
				o := hw + 1 + int64(r.intn(int(nw-hw)))
				for _, lr := range c.liveReaders() {
					if o < lr.next {
						o = lr.next
					}
				}
				c.doTruncate(o)
				stats["c03/truncate-above-hw"]++
				// the new leader's data arrives
				if r.intn(2) == 0 && !c.viol {
					var msgs []*Message
					for j := 0; j < 1+r.intn(3); j++ {
						msgs = append(msgs, c.genMsg(r, pool))
					}
					c.doAppendSet(msgs, c.l.NewestOffset()+1)
				}
			}
		default:
			// one time in three the log is read-only while it is cleaned and the readers go on: a reader whose
			// segment is replaced or deleted then is created again, it has not reached the read-only end
			ro := (compact || retention) && r.intn(3) == 0
			if ro {
				c.doReadonly(true)
			}
			if compact {
				c.layout()
				c.doCompactKeepingReaders()
				c.layout()
			} else if retention {
				// the retention policy deletes whole segments under live readers, parked or not
				if nw >= 0 && hw < nw && r.intn(2) == 0 {
					c.doHW(nw)
				}
				c.layout()
				c.doCleanRetention(0)
				c.layout()
				if od := c.l.OldestOffset(); od >= 0 && c.l.HighWatermark() < od && !c.viol {
					c.doHW(od)
				}
				stats["c03/retention-with-live-readers"]++
			}
			if ro {
				if !c.viol {
					for _, lr := range c.liveReaders() {
						c.doReaderNext(lr)
					}
				}
				c.doReadonly(false)
				stats["c03/clean-while-readonly"]++
			}
		}
		c.state()
	}
	if !c.viol {
		for _, lr := range c.liveReaders() {
			c.doReaderNext(lr)
		}
	}
	c.finish()
}

// doCompactKeepingReaders compacts while live readers exist: what they still have to deliver is the
// surviving records from their position on.
func (c *vLogCase) doCompactKeepingReaders() {
	c.doCompact()
	c.stats["c03/compact-with-live-readers"]++
}

func TestVerifLog(t *testing.T) {
	out := vOpenOut()
	defer out.close()
	stats := map[string]int{}
	profile := os.Getenv("VERIF_PROFILE")
	n := vEnvInt("VERIF_N", 200)
	r := vNewRand(vSeed())
	for i := 0; i < n; i++ {
		switch profile {
		case "c01":
			vRunC01Case(out, r, i, stats)
		case "c16":
			vRunC16Case(out, r, i, stats)
		case "c09":
			vRunC09Case(out, r, i, stats)
		case "c08":
			vRunC08Case(out, r, i, stats)
		case "c03":
			vRunC03Case(out, r, i, stats)
		}
	}
	out.emit(vM{"k": "stat", "dist": stats})
}
