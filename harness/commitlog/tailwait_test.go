//go:build verif

package commitlog

// C01: a blocking (tailing) uncommitted reader against appends, size and AGE rolls and truncations,
// with the interleaving under control: the real Reader.ReadMessage loop runs in its own goroutine; the
// verif hook "reader:before-wait" holds it just before segment.waitForData (the window between its
// look at the segment list and its registration as a waiter), the package clock is a variable, so an
// age roll happens exactly when the driver wants one. The driver performs writer actions while the
// reader is parked or held, then lets the reader run until it is parked (or spins); after every such
// block the number of messages delivered and the reader's state are compared with the LTS of
// coq/theories/Log/TailWait.v, and a parked or spinning reader with undelivered messages is a
// violation by itself.

import (
	"context"
	"fmt"
	"os"
	"sync/atomic"
	"testing"
	"time"
)

type vTailCase struct {
	l       *commitLog
	now     int64
	got     int64 // messages delivered (atomic)
	held    chan struct{}
	release chan struct{}
	capMsgs int
}

func (c *vTailCase) waitersOn() bool {
	for _, s := range c.l.Segments() {
		s.RLock()
		n := len(s.waiters)
		s.RUnlock()
		if n > 0 {
			return true
		}
	}
	return false
}

// settle: wait until the reader is held at the hook ("held") or registered as a waiter ("parked")
func (c *vTailCase) settle() string {
	deadline := time.Now().Add(3 * time.Second)
	for time.Now().Before(deadline) {
		select {
		case <-c.held:
			return "held"
		default:
		}
		if c.waitersOn() {
			return "parked"
		}
		time.Sleep(20 * time.Microsecond)
	}
	return "lost"
}

// scripted blocks (run first): acts "A" append, "G" append after the clock jumped (age roll), "T<k>"
// truncate the active segment to k messages; hold: stop the drain when the reader is held with
// everything delivered
type vTailBlock struct {
	acts []string
	hold bool
}

var vTailCorpus = []struct {
	capMsgs int
	blocks  []vTailBlock
}{
	// the age roll between the reader's look at the segment list and waitForData
	{4, []vTailBlock{{[]string{"G"}, false}, {[]string{"A"}, false}}},
	// truncation makes a rewritten segment active; the reader parks at its end; it is rolled by age
	{4, []vTailBlock{{[]string{"G", "A", "T1"}, false}, {[]string{"G"}, false}, {[]string{"A"}, false}}},
	// a roll by the cleaner's timer (no append) under a parked reader, then appends to the new segment and another roll
	{4, []vTailBlock{{[]string{"R"}, false}, {[]string{"A"}, false}, {[]string{"A"}, false}, {[]string{"G"}, false}}},
	// ... and is appended to while the reader waits at its end
	{4, []vTailBlock{{[]string{"G", "A", "T1"}, false}, {[]string{"A"}, false}, {[]string{"A"}, false}, {[]string{"G"}, false}}},
}

func TestVerifTailWait(t *testing.T) {
	out := vOpenOut()
	defer out.close()
	n := vEnvInt("VERIF_N", 150)
	rnd := vNewRand(vSeed() ^ 0x7a11)
	stats := map[string]int{}
	oldClock := timestamp
	defer func() { timestamp = oldClock; CrashHook = nil }()
	for id := 0; id < n; id++ {
		c := &vTailCase{now: 1000, held: make(chan struct{}, 1), release: make(chan struct{})}
		timestamp = func() int64 { return atomic.LoadInt64(&c.now) }
		c.capMsgs = 2 + rnd.intn(3)
		var script []vTailBlock
		if id < len(vTailCorpus) {
			c.capMsgs, script = vTailCorpus[id].capMsgs, vTailCorpus[id].blocks
		}
		dir := fmt.Sprintf("%s/log_tail_%d", os.Getenv("VERIF_WORK"), id)
		os.RemoveAll(dir)
		mk := func() *Message {
			return &Message{MagicByte: 1, Timestamp: atomic.LoadInt64(&c.now), LeaderEpoch: 1, Value: []byte("vvvv"), Offset: -1}
		}
		one, _, err := newMessageSetFromProto(0, 0, []*Message{mk()}, false)
		if err != nil {
			t.Fatal(err)
		}
		li, err := New(Options{Path: dir, Name: "verif", MaxSegmentBytes: int64(c.capMsgs * len(one)), MaxSegmentAge: 1000, CleanerInterval: time.Hour, HWCheckpointInterval: time.Hour})
		if err != nil {
			t.Fatal(err)
		}
		c.l = li.(*commitLog)
		readerGo := make(chan struct{})
		var readerID int64
		CrashHook = func(p string) {
			if p != "reader:before-wait" || atomic.LoadInt64(&readerID) == 0 {
				return
			}
			c.held <- struct{}{}
			<-c.release
		}
		ctx, cancel := context.WithCancel(context.Background())
		if _, err := c.l.Append([]*Message{mk()}); err != nil { // a reader cannot be opened on an empty log
			t.Fatal(err)
		}
		rd, err := c.l.NewReader(0, true)
		if err != nil {
			t.Fatal(err)
		}
		var rerr atomic.Value
		go func() {
			defer close(readerGo)
			atomic.StoreInt64(&readerID, 1)
			hb := make([]byte, 28)
			for {
				_, off, _, _, err := rd.ReadMessage(ctx, hb)
				if err != nil {
					rerr.Store(err.Error())
					return
				}
				if off != atomic.LoadInt64(&c.got) {
					rerr.Store(fmt.Sprintf("delivered offset %d after %d messages", off, atomic.LoadInt64(&c.got)))
					atomic.AddInt64(&c.got, 1<<40)
					return
				}
				atomic.AddInt64(&c.got, 1)
			}
		}()
		var blocks []vM
		viol := ""
		state := c.settle() // the reader arrives at the end of the empty log
		// drain: let the reader run until it is parked; when wantHold, stop at the first moment it is held
		// with everything delivered (the window in which the next block's writes happen)
		drain := func(wantHold bool) string {
			spins := 0
			for {
				if state == "lost" {
					return "lost"
				}
				if state == "parked" {
					return "parked"
				}
				all := atomic.LoadInt64(&c.got) == c.l.NewestOffset()+1
				if wantHold && all {
					return "held"
				}
				before := atomic.LoadInt64(&c.got)
				c.release <- struct{}{}
				state = c.settle()
				if state == "held" && atomic.LoadInt64(&c.got) == before {
					spins++
					if spins >= 4 {
						return "spin"
					}
				} else {
					spins = 0
				}
			}
		}
		nblocks := 4 + rnd.intn(10)
		if script != nil {
			nblocks = len(script)
		}
		for b := 0; b < nblocks && viol == ""; b++ {
			var acts []vM
			nact := 1
			if state == "held" {
				nact = 1 + rnd.intn(3)
			}
			if script != nil {
				nact = len(script[b].acts)
			}
			for a := 0; a < nact; a++ {
				active := c.l.activeSegment()
				choice := rnd.pick(5, 3, 4, 2)
				var scriptK int64 = -1
				if script != nil {
					switch code := script[b].acts[a]; code[0] {
					case 'A':
						choice = 0
					case 'G':
						choice = 1
					case 'R':
						choice = 3
					default:
						choice = 2
						fmt.Sscanf(code[1:], "%d", &scriptK)
					}
				}
				switch choice {
				case 0:
					atomic.AddInt64(&c.now, 1)
					roll := active.CheckSplit(c.l.MaxSegmentAge)
					if _, err := c.l.Append([]*Message{mk()}); err != nil {
						t.Fatal(err)
					}
					if roll {
						acts = append(acts, vM{"a": "roll-append", "why": "size"})
						stats["roll/size"]++
					} else {
						acts = append(acts, vM{"a": "append"})
						stats["append"]++
					}
				case 1:
					atomic.AddInt64(&c.now, 5000) // older than MaxSegmentAge (if it has been written to)
					roll := active.CheckSplit(c.l.MaxSegmentAge)
					if _, err := c.l.Append([]*Message{mk()}); err != nil {
						t.Fatal(err)
					}
					if roll {
						acts = append(acts, vM{"a": "roll-append", "why": "age"})
						stats["roll/age"]++
					} else {
						acts = append(acts, vM{"a": "append"})
						stats["append"]++
					}
				case 3:
					// the cleaner's timer: the active segment is rolled because of its age without any append
					atomic.AddInt64(&c.now, 5000)
					if !active.CheckSplit(c.l.MaxSegmentAge) {
						continue
					}
					if _, err := c.l.checkAndPerformSplit(); err != nil {
						t.Fatal(err)
					}
					acts = append(acts, vM{"a": "roll"})
					stats["roll/age-no-append"]++
				default:
					// truncate inside the active segment, above what the reader has consumed, not while the reader
					// is held in front of waitForData of that segment (the server never truncates under a tail reader)
					base := active.BaseOffset
					nw := c.l.NewestOffset()
					lo := atomic.LoadInt64(&c.got)
					if lo < base {
						lo = base
					}
					if state == "held" {
						// (the reader goroutine is blocked in the hook: its fields are stable)
						if ur, ok := rd.ctxReader.(*uncommittedReader); !ok || ur.seg == active {
							continue // the reader is held in front of waitForData of the active segment itself
						}
					}
					if lo == base && len(c.l.Segments()) > 1 {
						lo = base + 1 // at the base the segment would be deleted, not rewritten
					}
					if nw < lo {
						continue
					}
					o := lo + int64(rnd.intn(int(nw-lo)+1))
					if scriptK >= 0 {
						o = base + scriptK
					}
					if err := c.l.Truncate(o); err != nil {
						t.Fatal(err)
					}
					acts = append(acts, vM{"a": "trunc", "k": o - base})
					stats["trunc"]++
				}
			}
			if len(acts) == 0 {
				continue
			}
			if state == "parked" {
				state = c.settle() // woken or not
			}
			hold := rnd.intn(2) == 0
			if script != nil {
				hold = script[b].hold
			}
			end := drain(hold)
			state2 := end
			if end == "held" || end == "spin" {
				state = "held"
			}
			got := atomic.LoadInt64(&c.got)
			var segs []vM
			for _, s := range c.l.Segments() {
				s.RLock()
				nw := len(s.waiters)
				s.RUnlock()
				segs = append(segs, vM{"len": s.MessageCount(), "sealed": s.sealed, "waiters": nw})
			}
			blocks = append(blocks, vM{"acts": acts, "hold": hold, "end": state2, "got": got, "segs": segs})
			stats["end/"+state2]++
			if e, _ := rerr.Load().(string); e != "" {
				viol = "the tail reader failed: " + e
			} else if (end == "parked" || end == "spin" || end == "lost") && got != c.l.NewestOffset()+1 {
				viol = fmt.Sprintf("the tail reader is %s after delivering %d messages while the log holds offsets up to %d (segments %v)", map[string]string{"parked": "parked in waitForData", "spin": "spinning between waitForData and the segment list", "lost": "neither parked nor at waitForData"}[end], got, c.l.NewestOffset(), segs)
			}
			if end == "lost" {
				break
			}
		}
		cj := vM{"k": "tail", "id": id, "cap": c.capMsgs, "blocks": blocks}
		if viol != "" {
			out.emit(vM{"k": "violation", "sig": "tail-wait", "what": viol, "case": cj})
		}
		out.emit(cj)
		// shut the reader down
		atomic.StoreInt64(&readerID, 0)
		cancel()
		select {
		case c.release <- struct{}{}:
		default:
		}
		go func() {
			for range c.held {
			}
		}()
		select {
		case <-readerGo:
		case <-time.After(2 * time.Second):
			select {
			case c.release <- struct{}{}:
			default:
			}
		}
		c.l.Close()
		os.RemoveAll(dir)
	}
	out.emit(vM{"k": "stat", "dist": stats})
}
