package encryption

// C17 driver: real Seal / Read on generated values, every single-byte corruption and truncation
// of the stored form, and a second master key.

import (
	"bytes"
	"os"
	"testing"
)

func vC17Handler(key string) *LocalEncryptionHandler {
	os.Setenv(masterKeyVarName, key)
	h, err := NewLocalEncryptionHandler()
	if err != nil {
		panic(err)
	}
	return h
}

// vC17Observe runs Read and, separately, the primitives on the same slices, so that the model
// gets the primitives' outcomes as inputs.
func vC17Observe(out *vOut, h *LocalEncryptionHandler, data []byte, class string, want []byte, mustFail bool, dist map[string]int) {
	var plain []byte
	var err error
	cls := 0
	if p := vCatch(func() { plain, err = h.Read(data) }); p != "" {
		cls = 2
		out.emit(vM{"k": "violation", "sig": "read-panic", "what": "Read panicked: " + p, "case": vM{"k": "enc", "data": vHex(data)}})
	} else if err != nil {
		cls = 1
	}
	unwrapOK, keyOK, openOK := false, false, false
	var opened []byte
	if len(data) >= 1 && len(data) >= int(data[0])+1 {
		ke := int(data[0]) + 1
		var dek []byte
		vCatch(func() {
			d, e := h.unwrapDEK(data[1:ke])
			if e == nil {
				unwrapOK, dek = true, d
			}
		})
		if unwrapOK {
			keyOK = len(dek) == 16 || len(dek) == 24 || len(dek) == 32
			if keyOK && len(data[ke:]) >= 12 {
				vCatch(func() {
					p, e := h.decryptData(dek, data[ke:])
					if e == nil {
						openOK, opened = true, p
					}
				})
			}
		}
	}
	if cls == 0 {
		opened = plain
	}
	dist[class+"/"+[]string{"ok", "err", "panic"}[cls]]++
	out.emit(vM{"k": "enc", "data": vHex(data), "unwrap_ok": unwrapOK, "key_ok": keyOK, "open_ok": openOK, "plain": vHex(opened), "cls": cls, "class": class})
	// direct oracle
	if want != nil && cls == 0 && !bytes.Equal(plain, want) {
		out.emit(vM{"k": "violation", "sig": "wrong-plaintext", "what": "Read returned a different value than was sealed", "case": vM{"k": "enc", "data": vHex(data)}})
	}
	if want != nil && cls != 0 && !mustFail {
		out.emit(vM{"k": "violation", "sig": "sealed-value-unreadable", "what": "Read failed on an untouched sealed value", "case": vM{"k": "enc", "data": vHex(data)}})
	}
	if mustFail && cls == 0 {
		out.emit(vM{"k": "violation", "sig": "tampered-accepted", "what": "Read returned data for a tampered / foreign value (" + class + ")", "case": vM{"k": "enc", "data": vHex(data)}})
	}
}

func TestVerifC17(t *testing.T) {
	out := vOpenOut()
	defer out.close()
	dist := map[string]int{}
	h := vC17Handler("t7w!z%C*F-JaNcRf")
	if rp := vReplayLines(); rp != nil {
		for _, c := range rp {
			if c["k"] == "enc" {
				vC17Observe(out, h, vUnhex(c["data"].(string)), "replay", nil, false, dist)
			}
		}
		return
	}
	other := vC17Handler("/A?D(G+KbPdSgVkYp3s6v9y$B&E)H@Mc")
	r := vNewRand(vSeed() + 17)
	nvals := vEnvInt("VERIF_N", 12)
	// corpus
	vC17Observe(out, h, []byte{}, "corpus-empty", nil, true, dist)
	vC17Observe(out, h, nil, "corpus-nil", nil, true, dist)
	for v := 0; v < nvals; v++ {
		var val []byte
		switch v % 6 {
		case 0:
			val = []byte{}
		case 1:
			val = r.bytesN(1)
		case 2:
			val = r.bytesN(16 + r.intn(16))
		case 3:
			val = r.bytesN(200)
		case 4:
			val = bytes.Repeat([]byte("plaintext-marker-"), 4)
		default:
			val = r.bytesN(r.intn(64))
		}
		sealed, err := h.Seal(val)
		if err != nil {
			t.Fatal(err)
		}
		vC17Observe(out, h, sealed, "sealed", val, false, dist)
		// the stored bytes must not contain the value in clear (checked for values >= 16 bytes)
		if len(val) >= 16 && bytes.Contains(sealed, val) {
			out.emit(vM{"k": "violation", "sig": "plaintext-stored", "what": "the sealed form contains the published value in clear", "case": vM{"k": "enc", "data": vHex(sealed)}})
		}
		// a different master key
		vC17Observe(out, other, sealed, "other-master-key", val, true, dist)
		// every value of the key-size byte
		for b := 0; b < 256; b++ {
			if byte(b) == sealed[0] {
				continue
			}
			d := append([]byte{}, sealed...)
			d[0] = byte(b)
			vC17Observe(out, h, d, "keysize-byte", val, true, dist)
		}
		// one flipped bit in every other position
		for i := 1; i < len(sealed) && i < 320; i++ {
			d := append([]byte{}, sealed...)
			d[i] ^= 1 << uint(r.intn(8))
			vC17Observe(out, h, d, "bitflip", val, true, dist)
		}
		// every truncation
		for n := 0; n < len(sealed) && n < 120; n++ {
			vC17Observe(out, h, sealed[:n], "truncated", val, true, dist)
		}
		// appended garbage
		vC17Observe(out, h, append(append([]byte{}, sealed...), r.bytesN(1+r.intn(4))...), "extended", val, true, dist)
	}
	for i := 0; i < 40; i++ {
		vC17Observe(out, h, r.bytesN(r.intn(80)), "random", nil, true, dist)
	}
	out.emit(vM{"k": "stat", "dist": dist})
}
