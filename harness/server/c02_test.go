package server

import (
	"context"
	"fmt"
	"sort"
	"testing"
	"time"

	client "github.com/liftbridge-io/liftbridge-api/v2/go"
	"github.com/nats-io/nats.go"

	proto "github.com/liftbridge-io/liftbridge/server/protocol"
)

func vAskLeaderOffset(v *vPart, epoch uint64) (int64, error) {
	data, _ := proto.MarshalLeaderEpochOffsetRequest(&proto.LeaderEpochOffsetRequest{LeaderEpoch: epoch})
	resp, err := v.nc.Request(v.p.getLeaderOffsetRequestInbox(), data, 2*time.Second)
	if err != nil {
		return 0, err
	}
	r, err := proto.UnmarshalLeaderEpochOffsetResponse(resp.Data)
	if err != nil {
		return 0, err
	}
	return r.EndOffset, nil
}

var _ = nats.ErrTimeout

func TestVerifC02Explore(t *testing.T) {
	out := vOpenOut()
	defer out.close()
	srv := vStartServer("a", vPartConfig(1))
	defer srv.stop()
	v, err := vNewPart(srv, "s", []string{"a", "b", "c"}, nil)
	if err != nil {
		t.Fatal(err)
	}
	defer v.close()
	b := vNewSimLeader(v, "b")
	defer b.close()
	_, e1 := v.p.GetLeader()
	// epoch e1: a leads; m0, m1 replicated to b and c; m2 only on a
	v.publish("m0", nil, []byte("m0"), client.AckPolicy_LEADER, -1)
	v.publish("m1", nil, []byte("m1"), client.AckPolicy_LEADER, -1)
	v.settle()
	b.appendMsg(e1, "m0")
	b.appendMsg(e1, "m1")
	v.follower("b", 1)
	v.follower("c", 1)
	v.publish("m2", nil, []byte("m2-only-on-a"), client.AckPolicy_LEADER, -1)
	v.settle()
	out.emit(vM{"k": "x", "phase": "a leads e1", "e1": e1, "log": vLogDump(v.p), "hw": v.p.log.HighWatermark()})
	// epoch e2: b leads; a truncates and replicates x2, x3 of e2
	b.hw = 1
	e2, err := b.lead()
	if err != nil {
		t.Fatal(err)
	}
	b.appendMsg(e2, "x2")
	b.appendMsg(e2, "x3")
	time.Sleep(1500 * time.Millisecond)
	p := srv.s.metadata.GetPartition("s", 0)
	out.emit(vM{"k": "x", "phase": "b leads e2", "e2": e2, "log": vLogDump(p), "hw": p.log.HighWatermark(), "asked": b.asked})
	// epoch e3: a leads again; a replica that missed e2 asks where its epoch e1 ends
	e3, err := b.handBack()
	if err != nil {
		t.Fatal(err)
	}
	ans, aerr := vAskLeaderOffset(v, e1)
	ans2, _ := vAskLeaderOffset(v, e2)
	ans3, _ := vAskLeaderOffset(v, e3)
	out.emit(vM{"k": "x", "phase": "a leads e3", "e3": e3, "log": vLogDump(v.p), "answer_e1": ans, "answer_e2": ans2, "answer_e3": ans3, "err": fmt.Sprint(aerr)})
}

// stale follower offsets across two terms of the same leader
func TestVerifC02Stale(t *testing.T) {
	out := vOpenOut()
	defer out.close()
	srv := vStartServer("a", vPartConfig(1))
	defer srv.stop()
	v, err := vNewPart(srv, "s", []string{"a", "b", "c"}, nil)
	if err != nil {
		t.Fatal(err)
	}
	defer v.close()
	c := vNewSimLeader(v, "c")
	defer c.close()
	_, e1 := v.p.GetLeader()
	// e1: a leads; 0..3 on everyone (committed); 4,5 on a and b only (b reported 5, c reported 3)
	for i := 0; i < 6; i++ {
		v.publish(fmt.Sprintf("m%d", i), nil, []byte(fmt.Sprintf("m%d", i)), client.AckPolicy_LEADER, -1)
	}
	v.settle()
	v.follower("b", 5)
	v.follower("c", 3)
	v.settle()
	for i := 0; i < 4; i++ {
		c.appendMsg(e1, fmt.Sprintf("m%d", i))
	}
	out.emit(vM{"k": "x", "phase": "e1", "isr": v.isrOffsets(), "hw": v.p.log.HighWatermark(), "newest": v.p.log.NewestOffset()})
	// e2: c (has 0..3) leads; a reconciles (drops 4,5), replicates c's 4'
	c.hw = 3
	e2, _ := c.lead()
	c.appendMsg(e2, "c4")
	time.Sleep(1200 * time.Millisecond)
	p := srv.s.metadata.GetPartition("s", 0)
	out.emit(vM{"k": "x", "phase": "e2", "log": vLogDump(p), "hw": p.log.HighWatermark()})
	// e3: a leads again; b (really at 4 after reconciling with c) has not reported anything yet
	e3, _ := c.handBack()
	out.emit(vM{"k": "x", "phase": "e3 start", "e3": e3, "isr": v.isrOffsets(), "hw": v.p.log.HighWatermark(), "newest": v.p.log.NewestOffset()})
	v.publish("n5", nil, []byte("n5"), client.AckPolicy_ALL, -1)
	v.settle()
	out.emit(vM{"k": "x", "phase": "published n5 (ALL)", "isr": v.isrOffsets(), "hw": v.p.log.HighWatermark(), "newest": v.p.log.NewestOffset(), "acks": v.ackCount()})
	v.follower("b", 4) // b reports its true position
	v.follower("c", 5) // c has fetched n5
	v.settle()
	v.mu.Lock()
	var acks []string
	for _, a := range v.acks {
		if a.AckPolicy == client.AckPolicy_ALL {
			acks = append(acks, fmt.Sprintf("%s@%d", a.CorrelationId, a.Offset))
		}
	}
	v.mu.Unlock()
	out.emit(vM{"k": "x", "phase": "b reported 4, c reported 5", "isr": v.isrOffsets(), "hw": v.p.log.HighWatermark(), "all_acks": acks})
}

// ---- the protocol driver ----

type vEnt struct {
	ep uint64
	id int
}

type vCluster struct {
	hwBeyond int
	fellBack bool // the real replica, in the in-sync set, took the HW-truncation fallback and dropped committed messages
	v        *vPart
	sims     map[string]*vSimLeader
	logs     map[string][]vEnt // b, c
	hws      map[string]int64  // b, c
	leader   string
	epoch    uint64
	isr      []string
	view     map[string]int64 // a sim leader's view
	synced   map[string]bool
	minISR   int
	viol     string
	vsig     string
	steps    []vM
	commitd  []vEnt // longest prefix ever committed
	hwBefore int64
}

func (c *vCluster) violation(sig, what string) {
	if c.viol == "" {
		c.viol, c.vsig = what, sig
	}
}

func (c *vCluster) part() *partition { return c.v.srv.s.metadata.GetPartition(c.v.stream, 0) }

func (c *vCluster) logOf(r string) []vEnt {
	if r != "a" {
		return c.logs[r]
	}
	var out []vEnt
	for _, e := range vLogDump(c.part()) {
		var id int
		fmt.Sscanf(e["v"].(string), "v%d", &id)
		out = append(out, vEnt{e["ep"].(uint64), id})
	}
	return out
}

func (c *vCluster) hwOf(r string) int64 {
	if r == "a" {
		return c.part().log.HighWatermark()
	}
	return c.hws[r]
}

func (c *vCluster) inISR(r string) bool {
	for _, x := range c.isr {
		if x == r {
			return true
		}
	}
	return false
}

func vLastEpoch(l []vEnt) uint64 {
	if len(l) == 0 {
		return 0
	}
	return l[len(l)-1].ep
}

// simCommit: the commit rule of a phantom leader (the model's).
func (c *vCluster) simCommit() {
	if len(c.isr) < c.minISR || len(c.isr) == 0 {
		return
	}
	m := c.view[c.isr[0]]
	for _, r := range c.isr[1:] {
		if c.view[r] < m {
			m = c.view[r]
		}
	}
	if m > c.hws[c.leader] {
		c.hws[c.leader] = m
	}
}

func (c *vCluster) appendSim(r string, e vEnt) {
	c.logs[r] = append(c.logs[r], e)
	c.sims[r].appendMsg(e.ep, fmt.Sprintf("v%d", e.id))
}

func (c *vCluster) truncateSim(r string, n int) {
	if n < len(c.logs[r]) {
		c.logs[r] = c.logs[r][:n]
		c.sims[r].mu.Lock()
		c.sims[r].log.Truncate(int64(n))
		c.sims[r].epochs = c.sims[r].epochs[:n]
		c.sims[r].mu.Unlock()
	}
}

func (c *vCluster) waitRealSettled() {
	p := c.part()
	last, stable := int64(-2), 0
	for i := 0; i < 600 && stable < 8; i++ {
		time.Sleep(3 * time.Millisecond)
		cur := p.log.NewestOffset()*1000003 + p.log.HighWatermark()
		if cur == last {
			stable++
		} else {
			stable, last = 0, cur
		}
	}
}

func (c *vCluster) observe(step vM) {
	if c.leader == "a" {
		c.v.p = c.part()
		c.v.settle()
	} else {
		c.waitRealSettled()
	}
	enc := func(l []vEnt) [][]uint64 {
		out := [][]uint64{}
		for _, e := range l {
			out = append(out, []uint64{e.ep, uint64(e.id)})
		}
		return out
	}
	view := map[string]int64{}
	if c.leader == "a" {
		view = c.v.isrOffsets()
	} else {
		for _, r := range c.isr {
			view[r] = c.view[r]
		}
	}
	step["leader"], step["epoch"], step["isr"] = c.leader, c.epoch, append([]string{}, c.isr...)
	step["logs"] = vM{"a": enc(c.logOf("a")), "b": enc(c.logOf("b")), "c": enc(c.logOf("c"))}
	step["hws"] = vM{"a": c.hwOf("a"), "b": c.hwOf("b"), "c": c.hwOf("c")}
	step["view"] = view
	c.steps = append(c.steps, step)
	if c.leader != "a" && c.hwOf("a") > int64(len(c.logOf("a"))-1) {
		c.hwBeyond++ // the real replica, catching up, has taken a HW beyond its own log end
	}
	// direct oracle: the property's words
	ll := c.logOf(c.leader)
	if h := int(c.hwOf(c.leader)); h+1 > len(c.commitd) && h < len(ll) {
		c.commitd = append([]vEnt{}, ll[:h+1]...)
	}
	for i, e := range c.commitd {
		if i >= len(ll) || ll[i] != e {
			sig := "committed-message-lost"
			if c.fellBack && c.leader == "a" {
				sig = "committed-message-lost:after-hw-truncation-fallback"
			}
			c.violation(sig, fmt.Sprintf("offset %d was committed holding message v%d (epoch %d); the current leader %s holds %v there", i, e.id, e.ep, c.leader, func() interface{} {
				if i < len(ll) {
					return ll[i]
				}
				return "nothing"
			}()))
			break
		}
	}
	// the real replica's leader-epoch history against the messages it holds: for every epoch below a
	// later message's epoch, LastOffsetForLeaderEpoch is the offset of the first message of a later
	// epoch (this is what reconciliation cuts a follower's log with)
	la := c.logOf("a")
	for i, e := range la {
		if i == 0 || la[i-1].ep >= e.ep {
			continue
		}
		// e is the first message of an epoch later than la[i-1].ep
		if got := c.part().log.LastOffsetForLeaderEpoch(la[i-1].ep); got != int64(i) {
			c.violation("epoch-start-misplaced", fmt.Sprintf("replica a holds messages of epoch %d up to offset %d and the first message of a later epoch (%d) at offset %d, but its leader-epoch history says epoch %d ends where offset %d begins", la[i-1].ep, i-1, e.ep, i, la[i-1].ep, got))
			break
		}
	}
	// the leader does not count a replica beyond what that replica holds
	if c.leader == "a" {
		for f, o := range view {
			if f != "a" && o > int64(len(c.logOf(f))-1) {
				c.violation("leader-counts-unreported-offset", fmt.Sprintf("leader a (epoch %d) counts replica %s at offset %d, the replica holds %d messages", c.epoch, f, o, len(c.logOf(f))))
			}
		}
	}
	// the leader's HW never covers a message an in-sync replica does not hold
	for _, m := range c.isr {
		if h := c.hwOf(c.leader); int(h) >= len(c.logOf(m)) && h > c.hwBefore {
			c.violation("committed-without-isr-member", fmt.Sprintf("leader %s moved its high watermark to %d while in-sync replica %s holds only %d messages", c.leader, h, m, len(c.logOf(m))))
		}
	}
	c.hwBefore = c.hwOf(c.leader)
	names := []string{"a", "b", "c"}
	for i := 0; i < 3; i++ {
		for j := i + 1; j < 3; j++ {
			l1, l2 := c.logOf(names[i]), c.logOf(names[j])
			h := c.hwOf(names[i])
			if h2 := c.hwOf(names[j]); h2 < h {
				h = h2
			}
			for o := 0; o <= int(h) && o < len(l1) && o < len(l2); o++ {
				if l1[o] != l2[o] {
					c.violation("replicas-diverge-below-hw", fmt.Sprintf("replicas %s and %s have high watermarks >= %d but hold different messages at offset %d: v%d (epoch %d) and v%d (epoch %d)",
						names[i], names[j], h, o, l1[o].id, l1[o].ep, l2[o].id, l2[o].ep))
				}
			}
		}
	}
}

func (c *vCluster) raftOp(op *proto.RaftLog) error {
	ctx, cancel := context.WithTimeout(context.Background(), 10*time.Second)
	defer cancel()
	f, err := c.v.srv.s.getRaft().applyOperation(ctx, op, nil)
	if err != nil {
		return err
	}
	return f.Error()
}

func TestVerifC02(t *testing.T) {
	out := vOpenOut()
	defer out.close()
	stats := map[string]int{}
	r := vNewRand(vSeed() + 2)
	n := vEnvInt("VERIF_N", 6)
	for _, minISR := range []int{1, 2} {
		srv := vStartServer("a", func(cfg *Config) {
			vPartConfig(minISR)(cfg)
			cfg.Clustering.ReplicaMaxIdleWait = 4 * time.Second
			cfg.Clustering.ReplicaMaxLeaderTimeout = time.Hour
			cfg.Clustering.ReplicaFetchTimeout = 2 * time.Second
		})
		for k := 0; k < n; k++ {
			name := fmt.Sprintf("s%d_%d", minISR, k)
			v, err := vNewPart(srv, name, []string{"a", "b", "c"}, nil)
			if err != nil {
				t.Fatal(err)
			}
			c := &vCluster{v: v, sims: map[string]*vSimLeader{}, logs: map[string][]vEnt{}, hws: map[string]int64{"b": -1, "c": -1},
				leader: "a", hwBefore: -1, isr: []string{"a", "b", "c"}, view: map[string]int64{}, synced: map[string]bool{"a": true, "b": true, "c": true}, minISR: minISR}
			_, c.epoch = v.p.GetLeader()
			for _, nme := range []string{"b", "c"} {
				c.sims[nme] = vNewSimLeader(v, nme)
				c.sims[nme].gated = true
			}
			nextID := 0
			c.observe(vM{"op": "start"})
			// the first history of every configuration starts with a fixed prefix (corpus): the real replica
			// lags behind a phantom leader, leadership moves on to the other phantom, which publishes, and
			// the real replica then receives ONE replication batch that spans the epoch boundary
			var script []int
			if k == 0 {
				script = []int{0, 0, 2, 0, 0, 0, 3, 0, 1, 1, 3, 2, 1, 0, 0, 1, 0, 3}
				stats["corpus/epoch-spanning-batch"]++
			}
			if k == 1 {
				// second corpus history: a leads, c reports offset 4, b only holds 0..2; b is elected, a and c are cut back
				// to 2, b publishes three messages which a fetches and c does not; a is elected again without a restart:
				// what c reported in a's earlier term (4, not beyond a's new log end) says nothing about c's log now
				script = []int{0, 0, 0, 0, 0, 1, 1, 3, 1, 1, 3, 1, 1, 0, 1, 0, 2, 2, 0, 0, 0, 0, 1, 0, 3, 1, 0, 3, 3, 0, 2, 0, 0}
				stats["corpus/re-elected-leader-stale-offsets"]++
			}
			if k == 2 {
				// third corpus history: the real replica follows b and holds all five messages, c holds three; c is elected
				// while the real replica keeps running as a follower: it must cut its log back to what c has before it
				// fetches c's new messages
				script = []int{2, 0, 0, 0, 0, 0, 0, 1, 0, 3, 1, 0, 3, 3, 0, 1, 1, 2, 2, 1, 0, 0, 1, 0, 3}
				stats["corpus/running-follower-ahead-of-new-leader"]++
			}
			if k == 3 {
				// fourth corpus history (the truncation fallback, known finding): b leads, one message is stored by all three
				// and committed when c reports it -- the real replica's last response still carried the HW -1; c is elected
				// and is gone before it answers the real replica's leader-epoch request; a falls back to cutting its log at
				// its own HW, and, still in the in-sync set, is elected
				script = []int{2, 0, 3, 0, 0, 1, 0, 0, 1, 1, 0, 1, 0, 0, 1, 1, 0, 6, 1, 2, 0}
				stats["corpus/hw-fallback-then-elected"]++
			}
			pop := func(def func() int) int {
				if len(script) > 0 {
					x := script[0]
					script = script[1:]
					return x
				}
				return def()
			}
			nsteps := 12 + r.intn(22)
			for j := 0; j < nsteps && c.viol == ""; j++ {
				others := func(pred func(string) bool) []string {
					var out []string
					for _, x := range []string{"a", "b", "c"} {
						if x != c.leader && pred(x) {
							out = append(out, x)
						}
					}
					return out
				}
				switch pop(func() int { return r.pick(10, 10, 3, 5, 2, 2) }) {
				case 0: // publish
					nextID++
					if c.leader == "a" {
						c.v.p = c.part()
						c.v.publish(fmt.Sprintf("p%d", nextID), nil, []byte(fmt.Sprintf("v%d", nextID)), client.AckPolicy_LEADER, -1)
					} else {
						c.appendSim(c.leader, vEnt{c.epoch, nextID})
						c.view[c.leader] = int64(len(c.logs[c.leader]) - 1)
						c.simCommit()
						c.sims[c.leader].mu.Lock()
						c.sims[c.leader].hw = c.hws[c.leader]
						c.sims[c.leader].mu.Unlock()
					}
					stats["step/publish"]++
					c.observe(vM{"op": "publish", "v": nextID})
				case 1: // fetch
					cands := others(func(x string) bool { return c.synced[x] })
					if len(cands) == 0 {
						continue
					}
					f := cands[pop(func() int { return r.intn(len(cands)) })%len(cands)]
					k := 1 + pop(func() int { return r.intn(4) })
					if c.leader == "a" {
						c.v.p = c.part()
						if len(script) == 0 && r.intn(3) == 0 {
							// a request that was sent to an earlier leader (epoch) arrives late: it names an
							// offset the replica had then (here: more than it holds now) and must be ignored
							late, _ := proto.MarshalReplicationRequest(&proto.ReplicationRequest{ReplicaID: f, Offset: c.part().log.NewestOffset(), LeaderEpoch: c.epoch - 1})
							c.v.nc.PublishRequest(c.part().getReplicationRequestInbox(), fmt.Sprintf("verif.repl.%s", f), late)
							c.v.nc.Flush()
							stats["step/late-request-from-earlier-epoch"]++
						}
						reported, endNow := int64(len(c.logs[f])-1), c.part().log.NewestOffset()
						caughtBefore := c.v.lastCaughtUp(f)
						c.v.follower(f, reported)
						c.v.settle()
						// in-sync membership rests on what a replica reports: a request below the log end does not make it "caught up"
						if reported < endNow && c.v.lastCaughtUp(f).After(caughtBefore) {
							c.violation("caught-up-without-reporting-the-log-end", fmt.Sprintf("replica %s reported offset %d of leader a's log, which ends at %d; the leader sent the rest and marked the replica as caught up", f, reported, endNow))
						}
						ll := c.logOf("a")
						for i := 0; i < k && len(c.logs[f]) < len(ll); i++ {
							c.appendSim(f, ll[len(c.logs[f])])
						}
						if h := c.part().log.HighWatermark(); h > c.hws[f] {
							c.hws[f] = h
						}
					} else if f == "a" {
						L := c.sims[c.leader]
						L.mu.Lock()
						L.onFetch = func(reported int64) {
							if c.inISR("a") && reported > c.view["a"] {
								c.view["a"] = reported
							}
							c.simCommit()
							L.hw = c.hws[c.leader]
						}
						L.budget = k
						L.mu.Unlock()
						L.wakeFollower()
						select {
						case <-L.served:
						case <-time.After(8 * time.Second):
							c.violation("follower-never-fetched", "the real follower did not send a replication request within 8 s of being notified")
						}
					} else {
						if c.inISR(f) {
							if o := int64(len(c.logs[f]) - 1); o > c.view[f] {
								c.view[f] = o
							}
							c.simCommit()
						}
						ll := c.logs[c.leader]
						for i := 0; i < k && len(c.logs[f]) < len(ll); i++ {
							c.appendSim(f, ll[len(c.logs[f])])
						}
						if c.hws[c.leader] > c.hws[f] {
							c.hws[f] = c.hws[c.leader]
						}
						c.sims[c.leader].mu.Lock()
						c.sims[c.leader].hw = c.hws[c.leader]
						c.sims[c.leader].mu.Unlock()
					}
					stats["step/fetch"]++
					c.observe(vM{"op": "fetch", "r": f, "n": k})
				case 2: // elect
					cands := others(func(x string) bool { return c.synced[x] && c.inISR(x) })
					if len(cands) == 0 {
						continue
					}
					nl := cands[pop(func() int { return r.intn(len(cands)) })%len(cands)]
					old := c.leader
					if nl == "a" {
						for _, s := range c.sims {
							s.mu.Lock()
							s.epoch = 0
							s.mu.Unlock()
						}
						e, err := c.sims[old].handBack()
						if err != nil {
							c.violation("election-failed", err.Error())
							break
						}
						c.leader, c.epoch = "a", e
						c.synced = map[string]bool{"a": true}
						stats["step/elect-real"]++
						c.observe(vM{"op": "elect", "r": "a", "e": e})
					} else {
						if old != "a" {
							c.sims[old].mu.Lock()
							c.sims[old].epoch = 0
							c.sims[old].mu.Unlock()
						}
						sl := c.sims[nl]
						sl.mu.Lock()
						sl.hw, sl.hwSent = c.hws[nl], c.hwOf("a") // unscheduled requests are answered with the HW a already has
						sl.asked = nil
						sl.mu.Unlock()
						// the real server learns of the new leader by applying the operation and, if it is not
						// reconciled yet, reconciles at once: that is the next step of the history
						wasFollowing := old != "a"
						e, err := sl.lead()
						if err != nil {
							c.violation("election-failed", err.Error())
							break
						}
						c.leader, c.epoch = nl, e
						c.view = map[string]int64{}
						for _, x := range c.isr {
							c.view[x] = -1
						}
						c.view[nl] = int64(len(c.logs[nl]) - 1)
						c.synced = map[string]bool{nl: true}
						stats["step/elect-phantom"]++
						c.observe(vM{"op": "elect", "r": nl, "e": e})
						// a reconciles (becomeFollower -> truncateUncommitted) as part of applying the change
						deadline := time.Now().Add(5 * time.Second)
						for time.Now().Before(deadline) {
							sl.mu.Lock()
							asked := len(sl.asked)
							sl.mu.Unlock()
							if asked > 0 {
								break
							}
							time.Sleep(5 * time.Millisecond)
						}
						_ = wasFollowing
						c.synced["a"] = true
						c.observe(vM{"op": "reconcile", "r": "a"})
					}
				case 6: // (corpus only) a phantom is elected and is gone before it answers the real replica's leader-epoch request
					cands := others(func(x string) bool { return c.synced[x] && c.inISR(x) })
					if len(cands) == 0 || c.leader == "a" {
						continue
					}
					nl := cands[pop(func() int { return r.intn(len(cands)) })%len(cands)]
					if nl == "a" {
						continue
					}
					c.sims[c.leader].mu.Lock()
					c.sims[c.leader].epoch = 0
					c.sims[c.leader].mu.Unlock()
					sl := c.sims[nl]
					sl.mu.Lock()
					sl.hw, sl.hwSent = c.hws[nl], c.hwOf("a")
					sl.asked, sl.mute, sl.unanswered = nil, true, 0
					sl.mu.Unlock()
					hwA, endA := c.hwOf("a"), int64(len(c.logOf("a"))-1)
					e, err := sl.lead() // returns when the real server has applied the change: three timeouts, then the fallback
					if err != nil {
						c.violation("election-failed", err.Error())
						break
					}
					sl.mu.Lock()
					sl.mute = false
					unanswered := sl.unanswered
					sl.mu.Unlock()
					c.leader, c.epoch = nl, e
					c.view = map[string]int64{}
					for _, x := range c.isr {
						c.view[x] = -1
					}
					c.view[nl] = int64(len(c.logs[nl]) - 1)
					c.synced = map[string]bool{nl: true, "a": true}
					if c.inISR("a") && hwA < endA && hwA+1 < int64(len(c.commitd)) {
						c.fellBack = true // an in-sync replica cut away part of the committed prefix
					}
					stats["step/elect-phantom-unreachable"]++
					stats["step/leader-epoch-requests-unanswered"] += unanswered
					c.observe(vM{"op": "elect", "r": nl, "e": e})
					c.observe(vM{"op": "fallback", "r": "a"})
				case 3: // reconcile a phantom follower
					cands := others(func(x string) bool { return !c.synced[x] && x != "a" })
					if len(cands) == 0 {
						continue
					}
					f := cands[pop(func() int { return r.intn(len(cands)) })%len(cands)]
					q := vLastEpoch(c.logs[f])
					var ans int64
					if c.leader == "a" {
						c.v.p = c.part()
						a, err := vAskLeaderOffset(c.v, q)
						if err != nil {
							c.violation("leader-offset-request-failed", err.Error())
							break
						}
						ans = a
					} else {
						ans = c.sims[c.leader].lastOffsetUpTo(q)
					}
					c.truncateSim(f, int(ans+1))
					c.synced[f] = true
					stats["step/reconcile"]++
					c.observe(vM{"op": "reconcile", "r": f, "answer": ans, "q": q})
				case 4: // shrink
					cands := others(func(x string) bool { return c.inISR(x) })
					if len(cands) == 0 {
						continue
					}
					f := cands[pop(func() int { return r.intn(len(cands)) })%len(cands)]
					if c.leader == "a" {
						c.v.p = c.part()
						if err := c.v.shrink(f); err != nil {
							c.violation("shrink-failed", err.Error())
							break
						}
					} else {
						if err := c.raftOp(&proto.RaftLog{Op: proto.Op_SHRINK_ISR, ShrinkISROp: &proto.ShrinkISROp{Stream: v.stream, Partition: 0, ReplicaToRemove: f, Leader: c.leader, LeaderEpoch: c.epoch}}); err != nil {
							c.violation("shrink-failed", err.Error())
							break
						}
					}
					var isr []string
					for _, x := range c.isr {
						if x != f {
							isr = append(isr, x)
						}
					}
					c.isr = isr
					delete(c.view, f)
					if c.leader != "a" {
						c.simCommit()
						c.sims[c.leader].mu.Lock()
						c.sims[c.leader].hw = c.hws[c.leader]
						c.sims[c.leader].mu.Unlock()
					}
					stats["step/shrink"]++
					c.observe(vM{"op": "shrink", "r": f})
				default: // expand
					cands := others(func(x string) bool { return !c.inISR(x) && c.synced[x] && len(c.logOf(x)) == len(c.logOf(c.leader)) })
					if len(cands) == 0 {
						continue
					}
					f := cands[pop(func() int { return r.intn(len(cands)) })%len(cands)]
					if c.leader == "a" {
						c.v.p = c.part()
						if err := c.v.expand(f); err != nil {
							c.violation("expand-failed", err.Error())
							break
						}
					} else {
						if err := c.raftOp(&proto.RaftLog{Op: proto.Op_EXPAND_ISR, ExpandISROp: &proto.ExpandISROp{Stream: v.stream, Partition: 0, ReplicaToAdd: f, Leader: c.leader, LeaderEpoch: c.epoch}}); err != nil {
							c.violation("expand-failed", err.Error())
							break
						}
					}
					c.isr = append(c.isr, f)
					c.view[f] = -1
					stats["step/expand"]++
					c.observe(vM{"op": "expand", "r": f})
				}
			}
			stats["state/real-follower-hw-beyond-its-log-end"] += c.hwBeyond
			cj := vM{"k": "repl", "id": fmt.Sprintf("%d/%d", minISR, k), "minisr": minISR, "steps": c.steps}
			if c.viol != "" {
				out.emit(vM{"k": "violation", "sig": c.vsig, "what": c.viol, "case": cj})
			}
			out.emit(cj)
			for _, s := range c.sims {
				s.close()
			}
			v.close()
		}
		srv.stop()
	}
	out.emit(vM{"k": "stat", "dist": stats})
}

// TestVerifC02ExpandByTime replays, on the real leader with its real replicator timers (max lag time 1 s),
// the history of Repl.FallbackProofs.expansion_by_time_loses_committed: replica c is at the log end, falls
// silent and is removed from the in-sync set by the leader's own tick; it reports the log end once more;
// two messages are then committed by a and b; the tick -- c was seen, and at the log end, within the last
// second -- adds c back while it is two messages behind the HW; c is elected.
func TestVerifC02ExpandByTime(t *testing.T) {
	out := vOpenOut()
	defer out.close()
	stats := map[string]int{}
	srv := vStartServer("a", func(cfg *Config) {
		vPartConfig(1)(cfg)
		cfg.Clustering.ReplicaMaxLagTime = time.Second
		cfg.Clustering.ReplicaMaxIdleWait = 4 * time.Second
		cfg.Clustering.ReplicaMaxLeaderTimeout = time.Hour
		cfg.Clustering.ReplicaFetchTimeout = 2 * time.Second
	})
	defer srv.stop()
	v, err := vNewPart(srv, "xt", []string{"a", "b", "c"}, nil)
	if err != nil {
		t.Fatal(err)
	}
	defer v.close()
	simC := vNewSimLeader(v, "c")
	defer simC.close()
	_, e1 := v.p.GetLeader()
	logs := map[string][][]uint64{"b": {}, "c": {}}
	var steps []vM
	part := func() *partition { return srv.s.metadata.GetPartition("xt", 0) }
	leader := "a"
	epoch := e1
	observe := func(step vM) {
		p := part()
		if leader == "a" {
			v.p = p
			v.settle()
		} else {
			time.Sleep(300 * time.Millisecond)
		}
		la := [][]uint64{}
		for _, e := range vLogDump(p) {
			var id uint64
			fmt.Sscanf(e["v"].(string), "v%d", &id)
			la = append(la, []uint64{e["ep"].(uint64), id})
		}
		isr := p.GetISR()
		sort.Strings(isr)
		view := map[string]int64{}
		if leader == "a" {
			view = v.isrOffsets()
		}
		step["leader"], step["epoch"], step["isr"] = leader, epoch, isr
		step["logs"] = vM{"a": la, "b": append([][]uint64{}, logs["b"]...), "c": append([][]uint64{}, logs["c"]...)}
		step["hws"] = vM{"a": p.log.HighWatermark()}
		step["view"] = view
		steps = append(steps, step)
	}
	inISR := func(r string) bool {
		for _, x := range part().GetISR() {
			if x == r {
				return true
			}
		}
		return false
	}
	nextID := uint64(0)
	publish := func(pol client.AckPolicy) {
		id := nextID
		nextID++
		v.publish(fmt.Sprintf("p%d", id), nil, []byte(fmt.Sprintf("v%d", id)), pol, -1)
		observe(vM{"op": "publish", "v": id})
	}
	// a follower's fetch: it reports its log end, then holds up to n more of the leader's messages
	fetch := func(r string, n int) {
		v.follower(r, int64(len(logs[r]))-1)
		v.settle()
		la := vLogDump(part())
		for i := 0; i < n && len(logs[r]) < len(la); i++ {
			e := la[len(logs[r])]
			var id uint64
			fmt.Sscanf(e["v"].(string), "v%d", &id)
			logs[r] = append(logs[r], []uint64{e["ep"].(uint64), id})
			if r == "c" {
				simC.appendMsg(e["ep"].(uint64), e["v"].(string))
			}
		}
		observe(vM{"op": "fetch", "r": r, "n": n})
	}
	heartbeatB := func() { v.follower("b", int64(len(logs["b"]))-1) }
	observe(vM{"op": "start"})
	publish(client.AckPolicy_LEADER)
	fetch("b", 1)
	fetch("b", 0)
	fetch("c", 1)
	fetch("c", 0) // everybody holds message 0: committed
	// c falls silent; b keeps reporting; the leader's tick removes c
	removed := false
	for i := 0; i < 400 && !removed; i++ {
		if i%10 == 0 {
			heartbeatB()
		}
		time.Sleep(10 * time.Millisecond)
		removed = !inISR("c")
	}
	tickAt := time.Now() // the tick that removed c (within 10 ms); the next ones follow at intervals of the max lag time
	verdict := vM{"k": "expand-by-time", "removed_by_tick": removed}
	if removed {
		observe(vM{"op": "shrink", "r": "c"})
		// c reports 550 ms after that tick: the next tick (at 1000 ms) finds it "seen and caught up within the last
		// second" and c then stays a member until 1550 ms -- time enough to commit two messages before the tick and
		// to look at the in-sync set and elect c after it
		if d := 550*time.Millisecond - time.Since(tickAt); d > 0 {
			for d > 0 {
				heartbeatB()
				step := 100 * time.Millisecond
				if d < step {
					step = d
				}
				time.Sleep(step)
				d -= step
			}
		}
		fetch("c", 0) // c is seen again, at the log end
		publish(client.AckPolicy_ALL)
		publish(client.AckPolicy_ALL)
		fetch("b", 2)
		fetch("b", 0) // a and b, the whole in-sync set, hold messages 1 and 2: committed and acknowledged
		hw, acks := part().log.HighWatermark(), v.ackCount()
		if inISR("c") || !inISR("b") || hw != 2 {
			// the tick came before the two messages were committed (a slow machine): c was admitted at the log end,
			// which is not the history this scenario is about
			verdict["inconclusive"] = true
			out.emit(verdict)
			out.emit(vM{"k": "stat", "dist": stats})
			return
		}
		readded := false
		for i := 0; i < 300 && !readded; i++ {
			if i%10 == 0 {
				heartbeatB()
			}
			time.Sleep(10 * time.Millisecond)
			readded = inISR("c")
		}
		verdict["hw_before_readmission"], verdict["acks_before_readmission"], verdict["c_log_end"], verdict["readmitted_by_tick"] = hw, acks, len(logs["c"])-1, readded
		if readded && !inISR("b") {
			verdict["inconclusive"] = true
			readded = false
		}
		if readded {
			stats["scenario/readmitted-behind-hw"]++
			observe(vM{"op": "expand-behind", "r": "c"})
			if !inISR("c") || !inISR("b") {
				// the membership did not last long enough to be looked at (a slow machine)
				verdict["inconclusive"] = true
				out.emit(verdict)
				out.emit(vM{"k": "stat", "dist": stats})
				return
			}
			simC.mu.Lock()
			simC.hw, simC.hwSent, simC.gated, simC.budget = 0, 0, true, -1
			simC.mu.Unlock()
			e2, err := simC.lead()
			if err != nil {
				t.Fatal(err)
			}
			leader, epoch = "c", e2
			observe(vM{"op": "elect", "r": "c", "e": e2})
			if !inISR("c") || !inISR("b") {
				verdict["inconclusive"] = true // c's membership ended before the election was applied
				out.emit(verdict)
				out.emit(vM{"k": "stat", "dist": stats})
				return
			}
			deadline := time.Now().Add(5 * time.Second)
			for time.Now().Before(deadline) {
				simC.mu.Lock()
				asked := len(simC.asked)
				simC.mu.Unlock()
				if asked > 0 {
					break
				}
				time.Sleep(5 * time.Millisecond)
			}
			observe(vM{"op": "reconcile", "r": "a"})
			la := vLogDump(part())
			verdict["leader_c_log_end"], verdict["a_log_end_after_reconcile"] = len(logs["c"])-1, len(la)-1
			if int64(len(logs["c"])-1) < hw {
				cj := vM{"k": "repl", "id": "expand-by-time", "minisr": 1, "steps": steps}
				out.emit(vM{"k": "violation", "sig": "committed-message-lost:after-time-based-readmission", "case": cj,
					"what": fmt.Sprintf("offsets %d..%d were committed (acknowledged under the ALL policy, HW %d) while the in-sync set was {a, b}; the leader's tick then put c back into the in-sync set with its log ending at %d, c was elected, and neither the leader c nor a (cut back to %d) holds them", len(logs["c"]), hw, hw, len(logs["c"])-1, len(la)-1)})
			}
		}
	}
	out.emit(vM{"k": "repl", "id": "expand-by-time", "minisr": 1, "steps": steps, "scenario": true})
	out.emit(verdict)
	out.emit(vM{"k": "stat", "dist": stats})
}
