package server

import (
	"context"
	"fmt"
	"testing"
	"time"

	client "github.com/liftbridge-io/liftbridge-api/v2/go"
	"github.com/nats-io/nats.go"

	proto "github.com/liftbridge-io/liftbridge/server/protocol"
)

// vLogDump returns (offset, epoch, value) of every message in the real partition log.
func vLogDump(p *partition) []vM {
	out := []vM{}
	first := p.log.OldestOffset()
	if first < 0 {
		return out
	}
	rd, err := p.log.NewReader(first, true)
	if err != nil {
		return out
	}
	hb := make([]byte, 28)
	for {
		ctx, cancel := context.WithCancel(context.Background())
		cancel()
		m, off, _, ep, err := rd.ReadMessage(ctx, hb)
		if err != nil {
			return out
		}
		out = append(out, vM{"off": off, "ep": ep, "v": string(m.Value())})
	}
}

func vAskLeaderOffset(v *vPart, epoch uint64) (int64, error) {
	data, _ := proto.MarshalLeaderEpochOffsetRequest(&proto.LeaderEpochOffsetRequest{LeaderEpoch: epoch})
	resp, err := v.nc.Request(v.p.getLeaderOffsetRequestInbox(), data, 2*time.Second)
	if err != nil {
		return 0, err
	}
	r, err := proto.UnmarshalLeaderEpochOffsetResponse(resp.Data)
	if err != nil {
		return 0, err
	}
	return r.EndOffset, nil
}

var _ = nats.ErrTimeout

func TestVerifC02Explore(t *testing.T) {
	out := vOpenOut()
	defer out.close()
	srv := vStartServer("a", vPartConfig(1))
	defer srv.stop()
	v, err := vNewPart(srv, "s", []string{"a", "b", "c"}, nil)
	if err != nil {
		t.Fatal(err)
	}
	defer v.close()
	b := vNewSimLeader(v, "b")
	defer b.close()
	_, e1 := v.p.GetLeader()
	// epoch e1: a leads; m0, m1 replicated to b and c; m2 only on a
	v.publish("m0", nil, []byte("m0"), client.AckPolicy_LEADER, -1)
	v.publish("m1", nil, []byte("m1"), client.AckPolicy_LEADER, -1)
	v.settle()
	b.appendMsg(e1, "m0")
	b.appendMsg(e1, "m1")
	v.follower("b", 1)
	v.follower("c", 1)
	v.publish("m2", nil, []byte("m2-only-on-a"), client.AckPolicy_LEADER, -1)
	v.settle()
	out.emit(vM{"k": "x", "phase": "a leads e1", "e1": e1, "log": vLogDump(v.p), "hw": v.p.log.HighWatermark()})
	// epoch e2: b leads; a truncates and replicates x2, x3 of e2
	b.hw = 1
	e2, err := b.lead()
	if err != nil {
		t.Fatal(err)
	}
	b.appendMsg(e2, "x2")
	b.appendMsg(e2, "x3")
	time.Sleep(1500 * time.Millisecond)
	p := srv.s.metadata.GetPartition("s", 0)
	out.emit(vM{"k": "x", "phase": "b leads e2", "e2": e2, "log": vLogDump(p), "hw": p.log.HighWatermark(), "asked": b.asked})
	// epoch e3: a leads again; a replica that missed e2 asks where its epoch e1 ends
	e3, err := b.handBack()
	if err != nil {
		t.Fatal(err)
	}
	ans, aerr := vAskLeaderOffset(v, e1)
	ans2, _ := vAskLeaderOffset(v, e2)
	ans3, _ := vAskLeaderOffset(v, e3)
	out.emit(vM{"k": "x", "phase": "a leads e3", "e3": e3, "log": vLogDump(v.p), "answer_e1": ans, "answer_e2": ans2, "answer_e3": ans3, "err": fmt.Sprint(aerr)})
}

// stale follower offsets across two terms of the same leader
func TestVerifC02Stale(t *testing.T) {
	out := vOpenOut()
	defer out.close()
	srv := vStartServer("a", vPartConfig(1))
	defer srv.stop()
	v, err := vNewPart(srv, "s", []string{"a", "b", "c"}, nil)
	if err != nil {
		t.Fatal(err)
	}
	defer v.close()
	c := vNewSimLeader(v, "c")
	defer c.close()
	_, e1 := v.p.GetLeader()
	// e1: a leads; 0..3 on everyone (committed); 4,5 on a and b only (b reported 5, c reported 3)
	for i := 0; i < 6; i++ {
		v.publish(fmt.Sprintf("m%d", i), nil, []byte(fmt.Sprintf("m%d", i)), client.AckPolicy_LEADER, -1)
	}
	v.settle()
	v.follower("b", 5)
	v.follower("c", 3)
	v.settle()
	for i := 0; i < 4; i++ {
		c.appendMsg(e1, fmt.Sprintf("m%d", i))
	}
	out.emit(vM{"k": "x", "phase": "e1", "isr": v.isrOffsets(), "hw": v.p.log.HighWatermark(), "newest": v.p.log.NewestOffset()})
	// e2: c (has 0..3) leads; a reconciles (drops 4,5), replicates c's 4'
	c.hw = 3
	e2, _ := c.lead()
	c.appendMsg(e2, "c4")
	time.Sleep(1200 * time.Millisecond)
	p := srv.s.metadata.GetPartition("s", 0)
	out.emit(vM{"k": "x", "phase": "e2", "log": vLogDump(p), "hw": p.log.HighWatermark()})
	// e3: a leads again; b (really at 4 after reconciling with c) has not reported anything yet
	e3, _ := c.handBack()
	out.emit(vM{"k": "x", "phase": "e3 start", "e3": e3, "isr": v.isrOffsets(), "hw": v.p.log.HighWatermark(), "newest": v.p.log.NewestOffset()})
	v.publish("n5", nil, []byte("n5"), client.AckPolicy_ALL, -1)
	v.settle()
	out.emit(vM{"k": "x", "phase": "published n5 (ALL)", "isr": v.isrOffsets(), "hw": v.p.log.HighWatermark(), "newest": v.p.log.NewestOffset(), "acks": v.ackCount()})
	v.follower("b", 4) // b reports its true position
	v.follower("c", 5) // c has fetched n5
	v.settle()
	v.mu.Lock()
	var acks []string
	for _, a := range v.acks {
		if a.AckPolicy == client.AckPolicy_ALL {
			acks = append(acks, fmt.Sprintf("%s@%d", a.CorrelationId, a.Offset))
		}
	}
	v.mu.Unlock()
	out.emit(vM{"k": "x", "phase": "b reported 4, c reported 5", "isr": v.isrOffsets(), "hw": v.p.log.HighWatermark(), "all_acks": acks})
}
