package server

// C04 driver: publishes with mixed ack policies (single messages and groups that form one batch),
// follower progress reports, ISR shrinks and expansions on a partition whose followers are played
// by the driver (partdrv_test.go); RF 1, 2 and 3, minimum ISR 1..3, with and without optimistic
// concurrency control; and leader terms: another replica leads for a while (the real server follows it,
// cuts its log back to what that leader has and fetches what it wrote), then the real server leads again.  After every step: newest offset, HW, ISR offsets and every ack received.

import (
	"bytes"
	"context"
	"fmt"
	"os"
	"sort"
	"testing"
	"time"

	client "github.com/liftbridge-io/liftbridge-api/v2/go"

	proto "github.com/liftbridge-io/liftbridge/server/protocol"
)

// vC04Codec stands in for the encryption-at-rest handler of a stream: sealing fails for values that carry
// the marker (what a key-management failure does to a publish), everything else is stored as it is.
type vC04Codec struct{}

func (vC04Codec) Seal(v []byte) ([]byte, error) {
	if bytes.Contains(v, []byte("UNSEALABLE")) {
		return nil, fmt.Errorf("verif: sealing refused")
	}
	return v, nil
}
func (vC04Codec) Read(v []byte) ([]byte, error) { return v, nil }

var vC04Policies = []client.AckPolicy{client.AckPolicy_LEADER, client.AckPolicy_ALL, client.AckPolicy_NONE}

func TestVerifC04(t *testing.T) {
	out := vOpenOut()
	defer out.close()
	stats := map[string]int{}
	r := vNewRand(vSeed() + 4)
	n := vEnvInt("VERIF_N", 6)
	// one server per (minISR, batching) pair; streams on it vary RF and concurrency control
	type sconf struct {
		minISR int
		batch  bool
	}
	id := 0
	for _, sc := range []sconf{{1, false}, {2, true}, {3, false}, {2, false}, {1, true}} {
		srv := vStartServer(fmt.Sprintf("a%d%v", sc.minISR, sc.batch), func(cfg *Config) {
			vPartConfig(sc.minISR)(cfg)
			cfg.Clustering.ReplicationMaxBytes = 600
			if sc.batch {
				cfg.BatchMaxMessages = 16
				cfg.BatchMaxTime = 50 * time.Millisecond
			}
		})
		me := srv.s.config.Clustering.ServerID
		for k := 0; k < n; k++ {
			id++
			rf := 1 + r.intn(3)
			cc := r.intn(3) == 0 || os.Getenv("VERIF_CC_ONLY") != ""
			if k == 0 && os.Getenv("VERIF_CC_ONLY") == "" {
				rf, cc = 3, false // the corpus history below
			}
			replicas := []string{me, "b", "c"}[:rf]
			name := fmt.Sprintf("s%d", id)
			v, err := vNewPart(srv, name, replicas, func(st *proto.Stream) {
				if cc {
					st.Config = &proto.StreamConfig{OptimisticConcurrencyControl: &proto.NullableBool{Value: true}}
				}
			})
			if err != nil {
				t.Fatal(err)
			}
			enc := id%3 == 2
			if enc {
				v.p.encryptionHandler = vC04Codec{} // before the first publish reaches the message loop
			}
			var steps []vM
			viol, vsig := "", ""
			c16viol := ""
			c16viol2 := ""
			setViol := func(sig, what string) {
				if viol == "" {
					viol, vsig = what, sig
				}
			}
			corr := 0
			regains := 0
			sent := map[string]vM{}
			follower := map[string]int64{"b": -1, "c": -1}
			inISR := map[string]bool{"b": rf >= 2, "c": rf >= 3}
			observe := func(step vM) {
				v.settle()
				isr := v.isrOffsets()
				var isrL [][]interface{}
				var names []string
				for nme := range isr {
					names = append(names, nme)
				}
				sort.Strings(names)
				for _, nme := range names {
					isrL = append(isrL, []interface{}{nme, isr[nme]})
				}
				v.mu.Lock()
				var acks []vM
				for _, a := range v.acks {
					acks = append(acks, vM{"corr": a.CorrelationId, "off": a.Offset, "policy": a.AckPolicy.String(), "err": a.AckError.String()})
				}
				v.mu.Unlock()
				sort.Slice(acks, func(i, j int) bool { return acks[i]["corr"].(string) < acks[j]["corr"].(string) })
				step["newest"], step["hw"], step["isr"], step["acks"] = v.p.log.NewestOffset(), v.p.log.HighWatermark(), isrL, acks
				steps = append(steps, step)
				// direct oracle, the property's words
				for cid, m := range sent {
					if m["large"].(bool) && m["stored"] == nil && vC04Stored(v, []byte(m["value"].(string))) {
						m["stored"] = true
						setViol("rejected-message-stored", fmt.Sprintf("message %s is larger than clustering.replication.max.bytes; it must be refused and never stored, the log holds it", cid))
					}
					if m["unsealable"] == true && m["stored"] == nil && vC04Stored(v, []byte(m["value"].(string))) {
						m["stored"] = true
						setViol("rejected-message-stored", fmt.Sprintf("the value of message %s could not be encrypted; it must be refused and never stored, the log holds it", cid))
					}
				}
				// everything the log holds is a message somebody published here and that was not refused (or one the
				// other leader wrote during its term)
				if viol == "" {
					accepted := map[string]bool{}
					for _, m := range sent {
						if !m["large"].(bool) && m["unsealable"] != true {
							accepted[m["value"].(string)] = true
						}
					}
					for _, e := range vLogDump(v.p) {
						val := e["v"].(string)
						if !accepted[val] && !bytes.HasPrefix([]byte(val), []byte("foreign-")) {
							short := val
							if len(short) > 40 {
								short = short[:40] + "..."
							}
							setViol("rejected-message-stored", fmt.Sprintf("offset %d holds %q, which is no message that was published and accepted", e["off"], short))
							break
						}
					}
				}
				for _, a := range acks {
					m := sent[a["corr"].(string)]
					if m == nil {
						setViol("ack-unknown", fmt.Sprintf("ack for correlation id %s which was never published", a["corr"]))
						continue
					}
					if a["err"] == "INCORRECT_OFFSET" && m["expected"].(int64) == -1 && c16viol == "" {
						c16viol = fmt.Sprintf("message %s waived the offset check (expected offset -1) and was refused with an incorrect-offset error", a["corr"])
					}
					if a["err"] != "OK" {
						continue
					}
					if m["unsealable"] == true {
						setViol("rejected-message-acked", fmt.Sprintf("the value of message %s could not be encrypted and it was positively acknowledged", a["corr"]))
					}
					off := a["off"].(int64)
					switch m["policy"] {
					case "NONE":
						setViol("ack-for-none", fmt.Sprintf("message %s was published with ack policy NONE and was acknowledged", a["corr"]))
					case "ALL":
						if m["acked"] == nil {
							// first sight of this ack: every ISR member must hold the message now, and the ISR be large enough
							if len(isr) < sc.minISR {
								setViol("all-ack-below-min-isr", fmt.Sprintf("message %s (ALL) acknowledged while the ISR has %d members, minimum %d", a["corr"], len(isr), sc.minISR))
							}
							for rep, o := range isr {
								if o < off {
									setViol("all-ack-before-replicated", fmt.Sprintf("message %s (ALL) acknowledged at offset %d while in-sync replica %s has only reported %d", a["corr"], off, rep, o))
								}
								// what the replica really told this leader, not what the leader believes
								if fo, isF := follower[rep]; isF && fo < off {
									setViol("all-ack-before-replicated", fmt.Sprintf("message %s (ALL) acknowledged at offset %d while in-sync replica %s has stored only up to %d (the leader counts it at %d)", a["corr"], off, rep, fo, o))
								}
							}
							m["acked"] = true
						}
					}
					ck := fmt.Sprintf("checked@%d", off)
					if m[ck] == nil {
						m[ck] = true
						if got := vC04ValueAt(v, off); !bytes.Equal(got, []byte(m["value"].(string))) {
							setViol("ack-wrong-offset", fmt.Sprintf("message %s acknowledged at offset %d, which holds %q", a["corr"], off, got))
						}
					}
				}
			}
			followerStep := func(f string, o int64) {
				nw := v.p.log.NewestOffset()
				if o > follower[f] {
					follower[f] = o
				}
				caughtBefore := v.lastCaughtUp(f)
				v.follower(f, o)
				stats["step/follower"]++
				observe(vM{"op": "follower", "r": f, "o": o})
				// "caught up" (what keeps a replica in the ISR, and brings it back) is said by the replica's own
				// request: one that reports less than the log end leaves the mark where it was, whatever is sent back
				if o < nw && v.lastCaughtUp(f).After(caughtBefore) {
					setViol("caught-up-without-reporting-the-log-end", fmt.Sprintf("replica %s reported offset %d of a log that ends at %d; the leader sent it the rest and marked it as caught up although it has not said that it stored anything beyond %d", f, o, nw, o))
				}
			}
			publishOne := func(pol client.AckPolicy) {
				corr++
				cid := fmt.Sprintf("m%03d", corr)
				val := fmt.Sprintf("%s:%s", cid, "xxxxxxxx")
				sent[cid] = vM{"corr": cid, "policy": pol.String(), "large": false, "expected": int64(-1), "value": val, "wrong": false, "unsealable": false}
				v.publish(cid, nil, []byte(val), pol, -1)
				if sc.batch {
					time.Sleep(70 * time.Millisecond)
				}
				stats["step/publish"]++
				observe(vM{"op": "publish", "msgs": []vM{{"corr": cid, "policy": pol.String(), "large": false, "expected": int64(-1)}}})
			}
			// another leader term: replica f (in the ISR) leads; it holds the real server's log up to `keep` (not below
			// the HW) and writes `foreign` messages of its own, announcing the HW `simHW`; the real server follows it --
			// cuts its log back to `keep`, fetches the rest -- and is then elected again.  What the other replicas
			// reported to the real server in its earlier term says nothing about what they store now.
			regain := func(f string, keep int64, foreign int, simHW int64) {
				v.settle()
				dump := vLogDump(v.p)
				sl := vNewSimLeader(v, f)
				for _, e := range dump {
					if e["off"].(int64) <= keep {
						sl.appendMsg(e["ep"].(uint64), e["v"].(string))
					}
				}
				hwBefore := v.p.log.HighWatermark()
				sl.mu.Lock()
				sl.hw = simHW
				sl.mu.Unlock()
				e2, err := sl.lead()
				if err != nil {
					setViol("lead-failed", err.Error())
					sl.close()
					return
				}
				for i := 0; i < foreign; i++ {
					sl.appendMsg(e2, fmt.Sprintf("foreign-%d-%d", e2, i))
				}
				sl.wakeFollower()
				want := keep + int64(foreign)
				wantHW := simHW
				if wantHW > want {
					wantHW = want
				}
				if wantHW < hwBefore {
					wantHW = hwBefore
				}
				fp := srv.s.metadata.GetPartition(name, 0)
				for i := 0; i < 1500; i++ {
					if fp.log.NewestOffset() == want && fp.log.HighWatermark() == wantHW {
						break
					}
					time.Sleep(4 * time.Millisecond)
				}
				if _, err := sl.handBack(); err != nil {
					setViol("hand-back-failed", err.Error())
				}
				sl.close()
				// what the phantom replicas store now: f everything, the others what they had of the part that was kept
				for x := range follower {
					if x == f {
						follower[x] = want
					} else if follower[x] > keep {
						follower[x] = keep
					}
				}
				stats["step/regain"]++
				if keep < int64(len(dump))-1 {
					stats["step/regain-cut-back"]++
				}
				observe(vM{"op": "regain", "r": f, "keep": keep, "foreign": foreign, "simhw": simHW})
			}
			if k == 0 && rf == 3 && !cc {
				// corpus: c reports everything, b only the first message; b leads for a term and overwrites the tail; the
				// real server leads again and b alone reports the next ALL message: c's old report must not count
				for i := 0; i < 3; i++ {
					publishOne(client.AckPolicy_NONE)
				}
				followerStep("c", 2)
				followerStep("b", 0)
				regain("b", 0, 1, 0)
				publishOne(client.AckPolicy_ALL)
				followerStep("b", 2)
				followerStep("c", 2)
				stats["corpus/regained-leadership-stale-reports"]++
			}
			nsteps := 8 + r.intn(16)
			for j := 0; j < nsteps && viol == ""; j++ {
				switch r.pick(10, 7, 2, 2, 3, 3, 1) {
				case 0, 4:
					// one message, or (batching server) a group sent back to back
					k := 1
					if sc.batch && r.intn(2) == 0 {
						k = 2 + r.intn(4)
					}
					var group []vM
					for g := 0; g < k; g++ {
						corr++
						cid := fmt.Sprintf("m%03d", corr)
						pol := vC04Policies[r.pick(3, 4, 2)]
						size := 4 + r.intn(20)
						if r.intn(9) == 0 {
							size = 700 // larger than clustering.replication.max.bytes
						}
						expected := int64(-1)
						if cc && r.intn(2) == 0 {
							expected = v.p.log.NewestOffset() + 1
							if r.intn(3) == 0 {
								expected += int64(1 + r.intn(2))
							} else if r.intn(4) == 0 && expected > 0 {
								expected--
							}
						}
						val := fmt.Sprintf("%s:%s", cid, string(bytes.Repeat([]byte("x"), size)))
						unseal := enc && r.intn(5) == 0
						if unseal {
							val = fmt.Sprintf("%s:UNSEALABLE%s", cid, string(bytes.Repeat([]byte("x"), size)))
							stats["publish/unsealable"]++
						}
						m := vM{"corr": cid, "policy": pol.String(), "large": size >= 600, "expected": expected, "value": val, "unsealable": unseal,
							"wrong": cc && k == 1 && size < 600 && expected != -1 && expected != v.p.log.NewestOffset()+1 && !unseal}
						sent[cid] = m
						group = append(group, vM{"corr": cid, "policy": pol.String(), "large": size >= 600, "expected": expected, "unsealable": unseal})
						v.publish(cid, nil, []byte(val), pol, expected)
					}
					if sc.batch {
						time.Sleep(70 * time.Millisecond) // the loop holds a batch open for batch.max.time
					}
					stats["step/publish"]++
					if k > 1 {
						stats["step/publish-group"]++
					}
					observe(vM{"op": "publish", "msgs": group})
					for _, g := range group {
						m := sent[g["corr"].(string)]
						if m["wrong"].(bool) && c16viol == "" {
							answered := false
							v.mu.Lock()
							for _, a := range v.acks {
								if a.CorrelationId == g["corr"].(string) && a.AckError == client.Ack_INCORRECT_OFFSET {
									answered = true
								}
							}
							v.mu.Unlock()
							if !answered {
								c16viol2 = fmt.Sprintf("message %s (policy %s) expected offset %d on a log whose next offset was another one; it was not stored, and no incorrect-offset error came back", g["corr"], m["policy"], m["expected"])
							}
						}
					}
				case 1:
					var cands []string
					for _, f := range []string{"b", "c"}[:rf-1] {
						cands = append(cands, f)
					}
					if len(cands) == 0 {
						continue
					}
					f := cands[r.intn(len(cands))]
					nw := v.p.log.NewestOffset()
					if nw < 0 {
						continue
					}
					o := follower[f] + 1 + int64(r.intn(int(nw-follower[f])+1))
					if o > nw {
						o = nw
					}
					if o < 0 {
						o = 0
					}
					followerStep(f, o)
				case 5:
					// a replication request that was sent under an earlier leader epoch arrives late: it says that
					// the replica has everything; the leader must not take its offset for the replica's progress
					if rf < 2 {
						continue
					}
					f := []string{"b", "c"}[:rf-1][r.intn(rf-1)]
					nw := v.p.log.NewestOffset()
					_, epoch := v.p.GetLeader()
					if nw < 0 || epoch < 2 {
						continue
					}
					v.followerAt(f, nw, epoch-1)
					stats["step/stale-follower"]++
					observe(vM{"op": "stale", "r": f, "o": nw})
				case 6:
					var cands []string
					for _, f := range []string{"b", "c"}[:rf-1] {
						if inISR[f] {
							cands = append(cands, f)
						}
					}
					if len(cands) == 0 || regains >= 2 {
						continue
					}
					regains++
					f := cands[r.intn(len(cands))]
					nw, hw := v.p.log.NewestOffset(), v.p.log.HighWatermark()
					keep := hw + int64(r.intn(int(nw-hw)+1))
					foreign := r.intn(3)
					regain(f, keep, foreign, hw+int64(r.intn(int(keep+int64(foreign)-hw)+1)))
				case 2:
					var cands []string
					for _, f := range []string{"b", "c"}[:rf-1] {
						if inISR[f] {
							cands = append(cands, f)
						}
					}
					if len(cands) == 0 {
						continue
					}
					f := cands[r.intn(len(cands))]
					if err := v.shrink(f); err != nil {
						setViol("shrink-failed", err.Error())
					}
					inISR[f] = false
					stats["step/shrink"]++
					observe(vM{"op": "shrink", "r": f})
				case 3:
					var cands []string
					for _, f := range []string{"b", "c"}[:rf-1] {
						if !inISR[f] {
							cands = append(cands, f)
						}
					}
					if len(cands) == 0 {
						continue
					}
					f := cands[r.intn(len(cands))]
					if err := v.expand(f); err != nil {
						setViol("expand-failed", err.Error())
					}
					inISR[f] = true
					follower[f] = -1
					stats["step/expand"]++
					observe(vM{"op": "expand", "r": f})
				}
			}
			v.mu.Lock()
			for _, a := range v.acks {
				if a.AckError == client.Ack_ENCRYPTION {
					stats["ack/encryption-error"]++
				}
			}
			v.mu.Unlock()
			stats[fmt.Sprintf("rf=%d/minisr=%d/cc=%v/batch=%v", rf, sc.minISR, cc, sc.batch)]++
			cj := vM{"k": "ack", "id": id, "replicas": replicas, "minisr": sc.minISR, "cc": cc, "batch": sc.batch, "enc": enc, "steps": steps}
			if viol != "" {
				out.emit(vM{"k": "violation", "sig": vsig, "what": viol, "case": cj})
			}
			if c16viol != "" {
				out.emit(vM{"k": "violation", "prop": "C16", "sig": "unconditional-publish-refused", "what": c16viol, "case": cj})
			}
			if c16viol2 != "" {
				out.emit(vM{"k": "violation", "prop": "C16", "sig": "conditional-publish-unanswered", "what": c16viol2, "case": cj})
			}
			out.emit(cj)
			v.close()
		}
		srv.stop()
	}
	out.emit(vM{"k": "stat", "dist": stats})
}

// vC04Stored scans the leader's log for a message with the given value.
func vC04Stored(v *vPart, value []byte) bool {
	nw := v.p.log.NewestOffset()
	for off := int64(0); off <= nw; off++ {
		if bytes.Equal(vC04ValueAt(v, off), value) {
			return true
		}
	}
	return false
}

func vC04ValueAt(v *vPart, off int64) []byte {
	rd, err := v.p.log.NewReader(off, true)
	if err != nil {
		return nil
	}
	ctx, cancel := context.WithCancel(context.Background())
	cancel()
	m, o, _, _, err := rd.ReadMessage(ctx, make([]byte, 28))
	if err != nil || o != off {
		return nil
	}
	return append([]byte{}, m.Value()...)
}
