package server

// C06 driver: the metadata FSM of never-started servers (id "z", never a replica, so no NATS or
// Raft is needed) is driven through Server.apply / Snapshot / Restore / finishedRecovery with
// generated operation sequences that pass the real precondition checks.  Two servers apply every
// sequence live (determinism); further servers stop after m operations and are rebuilt from a
// snapshot taken at i <= m plus a replay of i+1..n.  After every step the projected metadata
// (streams, partitions, replicas, leaders, ISR, epochs, paused, read-only, groups, members,
// assignments) and the data directories are recorded.

import (
	"bytes"
	"context"
	"fmt"
	"os"
	"path/filepath"
	"sort"
	"testing"

	"github.com/liftbridge-io/liftbridge/server/commitlog"
	proto "github.com/liftbridge-io/liftbridge/server/protocol"
)

type vMemSink struct {
	bytes.Buffer
	cancelled bool
}

func (s *vMemSink) ID() string    { return "verif" }
func (s *vMemSink) Cancel() error { s.cancelled = true; return nil }
func (s *vMemSink) Close() error  { return nil }

type vFsm struct {
	s   *Server
	dir string
}

func vNewFsm(dir string, wipe bool) *vFsm {
	if wipe {
		os.RemoveAll(dir)
	}
	os.MkdirAll(dir, 0o755)
	cfg := NewDefaultConfig()
	cfg.DataDir = dir
	cfg.Clustering.ServerID = "z"
	cfg.Clustering.Namespace = "verif-c06"
	cfg.LogSilent = true
	cfg.Streams.SegmentMaxBytes = 1 << 20
	return &vFsm{s: New(cfg), dir: dir}
}

// apply applies a copy of the operation (as Raft would hand every server its own decoded copy).
func (f *vFsm) apply(raw []byte, idx uint64, recovered bool) (err error) {
	log := &proto.RaftLog{}
	if e := log.Unmarshal(raw); e != nil {
		return e
	}
	p := vCatch(func() { _, err = f.s.apply(log, idx, recovered) })
	if p != "" {
		return fmt.Errorf("panic: %s", p)
	}
	f.s.goroutineWait.Wait() // the asynchronous StreamDeleted notification has run
	return err
}

func (f *vFsm) snapshot() ([]byte, error) {
	snap, err := f.s.Snapshot()
	if err != nil {
		return nil, err
	}
	sink := &vMemSink{}
	if err := snap.Persist(sink); err != nil {
		return nil, err
	}
	return append([]byte{}, sink.Bytes()...), nil
}

func (f *vFsm) close() {
	f.s.goroutineWait.Wait()
	f.s.metadata.Reset()
}

type vNopCloser struct{ *bytes.Reader }

func (vNopCloser) Close() error { return nil }

// mark writes one message carrying tag into every partition log of the stream (the data whose
// survival is observed).
func (f *vFsm) mark(stream string, tag string) {
	st := f.s.metadata.GetStream(stream)
	if st == nil {
		return
	}
	for _, p := range st.GetPartitions() {
		if p.IsPaused() || p.log.NewestOffset() >= 0 {
			continue // data is there already: it keeps the tag of the create that made it
		}
		p.log.Append([]*commitlog.Message{{MagicByte: 1, Timestamp: 1, LeaderEpoch: 1, Offset: -1, Value: []byte(tag), Headers: map[string][]byte{}}})
	}
}

func vReadMarks(l commitlog.CommitLog) []string {
	out := []string{}
	first := l.OldestOffset()
	if first < 0 {
		return out
	}
	rd, err := l.NewReader(first, true)
	if err != nil {
		return out
	}
	hb := make([]byte, 28)
	for {
		ctx, cancel := context.WithCancel(context.Background())
		cancel()
		m, _, _, _, err := rd.ReadMessage(ctx, hb)
		if err != nil {
			return out
		}
		out = append(out, string(m.Value()))
	}
}

func vSorted(in []string) []string {
	out := append([]string{}, in...)
	sort.Strings(out)
	return out
}

// observe returns the projected metadata in a canonical order.
func (f *vFsm) observe() vM {
	streams := []vM{}
	sts := f.s.metadata.GetStreams()
	sort.Slice(sts, func(i, j int) bool { return sts[i].GetName() < sts[j].GetName() })
	for _, st := range sts {
		parts := []vM{}
		ids := []int{}
		for id := range st.GetPartitions() {
			ids = append(ids, int(id))
		}
		sort.Ints(ids)
		for _, id := range ids {
			p := st.GetPartition(int32(id))
			leader, lep := p.GetLeader()
			marks := []string{}
			if !p.IsPaused() {
				marks = vReadMarks(p.log)
			}
			parts = append(parts, vM{"id": id, "replicas": vSorted(p.GetReplicas()), "isr": vSorted(p.GetISR()), "leader": leader,
				"lepoch": lep, "epoch": p.GetEpoch(), "paused": p.IsPaused(), "pausedProto": p.GetPaused(),
				"ro": p.IsReadonly(), "roProto": p.GetReadonly(), "marks": marks})
		}
		streams = append(streams, vM{"name": st.GetName(), "tomb": st.IsTombstoned(), "resumeAll": st.GetResumeAll(), "parts": parts})
	}
	groups := []vM{}
	gs := f.s.metadata.GetConsumerGroups()
	sort.Slice(gs, func(i, j int) bool { return gs[i].GetID() < gs[j].GetID() })
	for _, g := range gs {
		coord, ep := g.GetCoordinator()
		members := []vM{}
		// the state itself (member.streams), not the accessor the snapshot is built from: an accessor
		// that drops something would hide the loss from both sides of the comparison
		names := []string{}
		mm := map[string][]string{}
		g.mu.RLock()
		for m, cons := range g.members {
			names = append(names, m)
			for s := range cons.streams {
				mm[m] = append(mm[m], s)
			}
		}
		g.mu.RUnlock()
		sort.Strings(names)
		g.mu.RLock()
		for _, m := range names {
			asg := []vM{}
			cons := g.members[m]
			sn := []string{}
			for s := range cons.assignments {
				sn = append(sn, s)
			}
			sort.Strings(sn)
			for _, s := range sn {
				ps := append([]int32{}, cons.assignments[s]...)
				sort.Slice(ps, func(i, j int) bool { return ps[i] < ps[j] })
				asg = append(asg, vM{"s": s, "ps": ps})
			}
			members = append(members, vM{"id": m, "streams": vSorted(mm[m]), "asg": asg})
		}
		// who the group keeps as subscriber of each stream (what the next rebalance hands partitions to): it has to
		// be the members that subscribe to it -- anything else lives in this server's memory only
		subs := []vM{}
		var sstreams []string
		for s := range g.subscribers {
			sstreams = append(sstreams, s)
		}
		sort.Strings(sstreams)
		for _, s := range sstreams {
			var ids []string
			for _, cons := range *g.subscribers[s] {
				ids = append(ids, cons.id)
			}
			sort.Strings(ids)
			if len(ids) > 0 {
				subs = append(subs, vM{"s": s, "cs": ids})
			}
		}
		g.mu.RUnlock()
		groups = append(groups, vM{"id": g.GetID(), "coord": coord, "epoch": ep, "members": members, "subs": subs})
	}
	disk := []string{}
	if ents, err := os.ReadDir(filepath.Join(f.dir, "streams")); err == nil {
		for _, e := range ents {
			disk = append(disk, e.Name())
		}
	}
	sort.Strings(disk)
	return vM{"streams": streams, "groups": groups, "disk": disk, "activity": f.s.activity.LastPublishedRaftIndex()}
}

// ---- operation generation (what a metadata leader could propose in the current state) ----

var vC06Brokers = []string{"a", "b", "c", "d"}

func vC06Gen(r *vRand, f *vFsm, idx uint64) (*proto.RaftLog, vM) {
	md := f.s.metadata
	sname := func() string { return fmt.Sprintf("s%d", r.intn(3)) }
	gname := func() string { return fmt.Sprintf("g%d", r.intn(2)) }
	cname := func() string { return fmt.Sprintf("c%d", r.intn(3)) }
	somePartitions := func(st *stream) []int32 {
		n := len(st.GetPartitions())
		if n == 0 || r.intn(3) == 0 {
			return nil // all
		}
		var out []int32
		for i := 0; i < n; i++ {
			if r.intn(2) == 0 {
				out = append(out, int32(i))
			}
		}
		return out
	}
	for try := 0; try < 40; try++ {
		switch r.pick(8, 4, 5, 5, 4, 6, 5, 5, 8, 4, 3, 1) {
		case 0:
			name := sname()
			n := 1 + r.intn(3)
			rf := 1 + r.intn(3)
			start := r.intn(len(vC06Brokers))
			var reps []string
			for i := 0; i < rf; i++ {
				reps = append(reps, vC06Brokers[(start+i)%len(vC06Brokers)])
			}
			var parts []*proto.Partition
			for i := 0; i < n; i++ {
				parts = append(parts, &proto.Partition{Subject: name, Stream: name, Id: int32(i), ReplicationFactor: int32(rf),
					Replicas: append([]string{}, reps...), Isr: append([]string{}, reps...), Leader: reps[i%rf]})
			}
			op := &proto.RaftLog{Op: proto.Op_CREATE_STREAM, CreateStreamOp: &proto.CreateStreamOp{Stream: &proto.Stream{Name: name, Subject: name, Partitions: parts, CreationTimestamp: 1}}}
			if md.checkCreateStreamPreconditions(op) == nil {
				return op, vM{"op": "create", "s": name, "n": n, "replicas": reps}
			}
		case 1:
			op := &proto.RaftLog{Op: proto.Op_DELETE_STREAM, DeleteStreamOp: &proto.DeleteStreamOp{Stream: sname()}}
			if md.checkDeleteStreamPreconditions(op) == nil {
				return op, vM{"op": "delete", "s": op.DeleteStreamOp.Stream}
			}
		case 2:
			name := sname()
			if st := md.GetStream(name); st != nil {
				op := &proto.RaftLog{Op: proto.Op_PAUSE_STREAM, PauseStreamOp: &proto.PauseStreamOp{Stream: name, Partitions: somePartitions(st), ResumeAll: r.intn(2) == 0}}
				if md.checkPauseStreamPreconditions(op) == nil {
					return op, vM{"op": "pause", "s": name, "ps": op.PauseStreamOp.Partitions, "all": op.PauseStreamOp.ResumeAll}
				}
			}
		case 3:
			name := sname()
			if st := md.GetStream(name); st != nil {
				ps := somePartitions(st)
				if ps == nil {
					for id := range st.GetPartitions() {
						ps = append(ps, id)
					}
					sort.Slice(ps, func(i, j int) bool { return ps[i] < ps[j] })
				}
				op := &proto.RaftLog{Op: proto.Op_RESUME_STREAM, ResumeStreamOp: &proto.ResumeStreamOp{Stream: name, Partitions: ps}}
				if md.checkResumeStreamPreconditions(op) == nil {
					return op, vM{"op": "resume", "s": name, "ps": ps}
				}
			}
		case 4:
			name := sname()
			if st := md.GetStream(name); st != nil {
				op := &proto.RaftLog{Op: proto.Op_SET_STREAM_READONLY, SetStreamReadonlyOp: &proto.SetStreamReadonlyOp{Stream: name, Partitions: somePartitions(st), Readonly: r.intn(3) > 0}}
				if md.checkSetStreamReadonlyPreconditions(op) == nil {
					return op, vM{"op": "readonly", "s": name, "ps": op.SetStreamReadonlyOp.Partitions, "ro": op.SetStreamReadonlyOp.Readonly}
				}
			}
		case 5, 6, 7:
			name := sname()
			st := md.GetStream(name)
			if st == nil {
				continue
			}
			pid := int32(r.intn(len(st.GetPartitions())))
			p := st.GetPartition(pid)
			leader, lep := p.GetLeader()
			isr := vSorted(p.GetISR())
			var others, out []string
			for _, x := range isr {
				if x != leader {
					others = append(others, x)
				}
			}
			in := map[string]bool{}
			for _, x := range isr {
				in[x] = true
			}
			for _, x := range vSorted(p.GetReplicas()) {
				if !in[x] {
					out = append(out, x)
				}
			}
			kind := r.intn(3)
			if kind == 0 && len(isr) > 0 && r.intn(4) == 0 {
				// the precondition check of ShrinkISR only asks for the partition to exist: any member can be
				// removed, the leader included, down to an empty in-sync set
				rep := isr[r.intn(len(isr))]
				return &proto.RaftLog{Op: proto.Op_SHRINK_ISR, ShrinkISROp: &proto.ShrinkISROp{Stream: name, Partition: pid, ReplicaToRemove: rep, Leader: leader, LeaderEpoch: lep}},
					vM{"op": "shrink", "s": name, "p": pid, "r": rep}
			}
			switch {
			case kind == 0 && len(others) > 0:
				rep := others[r.intn(len(others))]
				return &proto.RaftLog{Op: proto.Op_SHRINK_ISR, ShrinkISROp: &proto.ShrinkISROp{Stream: name, Partition: pid, ReplicaToRemove: rep, Leader: leader, LeaderEpoch: lep}},
					vM{"op": "shrink", "s": name, "p": pid, "r": rep}
			case kind == 1 && len(out) > 0:
				rep := out[r.intn(len(out))]
				return &proto.RaftLog{Op: proto.Op_EXPAND_ISR, ExpandISROp: &proto.ExpandISROp{Stream: name, Partition: pid, ReplicaToAdd: rep, Leader: leader, LeaderEpoch: lep}},
					vM{"op": "expand", "s": name, "p": pid, "r": rep}
			case kind == 2 && len(others) > 0:
				nl := others[r.intn(len(others))]
				return &proto.RaftLog{Op: proto.Op_CHANGE_LEADER, ChangeLeaderOp: &proto.ChangeLeaderOp{Stream: name, Partition: pid, Leader: nl}},
					vM{"op": "leader", "s": name, "p": pid, "l": nl}
			}
		case 8:
			g, c := gname(), cname()
			var ss []string
			for i := 0; i < 3; i++ {
				if r.intn(2) == 0 {
					ss = append(ss, fmt.Sprintf("s%d", i))
				}
			}
			if len(ss) == 0 {
				ss = []string{sname()}
			}
			if md.GetConsumerGroup(g) == nil {
				op := &proto.RaftLog{Op: proto.Op_CREATE_CONSUMER_GROUP, CreateConsumerGroupOp: &proto.CreateConsumerGroupOp{ConsumerGroup: &proto.ConsumerGroup{
					Id: g, Coordinator: vC06Brokers[r.intn(4)], Members: []*proto.Consumer{{Id: c, Streams: ss}}}}}
				if md.checkCreateConsumerGroupPreconditions(op) == nil {
					return op, vM{"op": "gcreate", "g": g, "c": c, "ss": ss, "coord": op.CreateConsumerGroupOp.ConsumerGroup.Coordinator}
				}
			} else {
				op := &proto.RaftLog{Op: proto.Op_JOIN_CONSUMER_GROUP, JoinConsumerGroupOp: &proto.JoinConsumerGroupOp{GroupId: g, ConsumerId: c, Streams: ss}}
				if md.checkJoinConsumerGroupPreconditions(op) == nil {
					return op, vM{"op": "join", "g": g, "c": c, "ss": ss}
				}
			}
		case 9:
			op := &proto.RaftLog{Op: proto.Op_LEAVE_CONSUMER_GROUP, LeaveConsumerGroupOp: &proto.LeaveConsumerGroupOp{GroupId: gname(), ConsumerId: cname()}}
			if md.checkLeaveConsumerGroupPreconditions(op) == nil {
				return op, vM{"op": "leave", "g": op.LeaveConsumerGroupOp.GroupId, "c": op.LeaveConsumerGroupOp.ConsumerId}
			}
		case 10:
			g := gname()
			if grp := md.GetConsumerGroup(g); grp != nil {
				old, _ := grp.GetCoordinator()
				nc := vC06Brokers[r.intn(4)]
				if nc != old {
					return &proto.RaftLog{Op: proto.Op_CHANGE_CONSUMER_GROUP_COORDINATOR, ChangeConsumerGroupCoordinatorOp: &proto.ChangeConsumerGroupCoordinatorOp{GroupId: g, Coordinator: nc}},
						vM{"op": "coord", "g": g, "coord": nc}
				}
			}
		default:
			return &proto.RaftLog{Op: proto.Op_PUBLISH_ACTIVITY, PublishActivityOp: &proto.PublishActivityOp{RaftIndex: idx - 1}}, vM{"op": "activity", "i": idx - 1}
		}
	}
	return &proto.RaftLog{Op: proto.Op_PUBLISH_ACTIVITY, PublishActivityOp: &proto.PublishActivityOp{RaftIndex: idx - 1}}, vM{"op": "activity", "i": idx - 1}
}

// vC06FromDesc rebuilds the operation a description stands for (corpus histories).
func vC06FromDesc(d vM, idx uint64) *proto.RaftLog {
	strs := func(k string) []string {
		var out []string
		for _, x := range d[k].([]string) {
			out = append(out, x)
		}
		return out
	}
	ints := func(k string) []int32 {
		if d[k] == nil {
			return nil
		}
		return d[k].([]int32)
	}
	switch d["op"] {
	case "create":
		name, n, reps := d["s"].(string), d["n"].(int), strs("replicas")
		var parts []*proto.Partition
		for i := 0; i < n; i++ {
			parts = append(parts, &proto.Partition{Subject: name, Stream: name, Id: int32(i), ReplicationFactor: int32(len(reps)),
				Replicas: append([]string{}, reps...), Isr: append([]string{}, reps...), Leader: reps[i%len(reps)]})
		}
		return &proto.RaftLog{Op: proto.Op_CREATE_STREAM, CreateStreamOp: &proto.CreateStreamOp{Stream: &proto.Stream{Name: name, Subject: name, Partitions: parts, CreationTimestamp: 1}}}
	case "delete":
		return &proto.RaftLog{Op: proto.Op_DELETE_STREAM, DeleteStreamOp: &proto.DeleteStreamOp{Stream: d["s"].(string)}}
	case "pause":
		return &proto.RaftLog{Op: proto.Op_PAUSE_STREAM, PauseStreamOp: &proto.PauseStreamOp{Stream: d["s"].(string), Partitions: ints("ps"), ResumeAll: d["all"].(bool)}}
	case "resume":
		return &proto.RaftLog{Op: proto.Op_RESUME_STREAM, ResumeStreamOp: &proto.ResumeStreamOp{Stream: d["s"].(string), Partitions: ints("ps")}}
	case "readonly":
		return &proto.RaftLog{Op: proto.Op_SET_STREAM_READONLY, SetStreamReadonlyOp: &proto.SetStreamReadonlyOp{Stream: d["s"].(string), Partitions: ints("ps"), Readonly: d["ro"].(bool)}}
	case "shrink":
		return &proto.RaftLog{Op: proto.Op_SHRINK_ISR, ShrinkISROp: &proto.ShrinkISROp{Stream: d["s"].(string), Partition: d["p"].(int32), ReplicaToRemove: d["r"].(string)}}
	case "expand":
		return &proto.RaftLog{Op: proto.Op_EXPAND_ISR, ExpandISROp: &proto.ExpandISROp{Stream: d["s"].(string), Partition: d["p"].(int32), ReplicaToAdd: d["r"].(string)}}
	case "leader":
		return &proto.RaftLog{Op: proto.Op_CHANGE_LEADER, ChangeLeaderOp: &proto.ChangeLeaderOp{Stream: d["s"].(string), Partition: d["p"].(int32), Leader: d["l"].(string)}}
	case "gcreate":
		return &proto.RaftLog{Op: proto.Op_CREATE_CONSUMER_GROUP, CreateConsumerGroupOp: &proto.CreateConsumerGroupOp{ConsumerGroup: &proto.ConsumerGroup{
			Id: d["g"].(string), Coordinator: d["coord"].(string), Members: []*proto.Consumer{{Id: d["c"].(string), Streams: strs("ss")}}}}}
	case "join":
		return &proto.RaftLog{Op: proto.Op_JOIN_CONSUMER_GROUP, JoinConsumerGroupOp: &proto.JoinConsumerGroupOp{GroupId: d["g"].(string), ConsumerId: d["c"].(string), Streams: strs("ss")}}
	case "leave":
		return &proto.RaftLog{Op: proto.Op_LEAVE_CONSUMER_GROUP, LeaveConsumerGroupOp: &proto.LeaveConsumerGroupOp{GroupId: d["g"].(string), ConsumerId: d["c"].(string)}}
	case "coord":
		return &proto.RaftLog{Op: proto.Op_CHANGE_CONSUMER_GROUP_COORDINATOR, ChangeConsumerGroupCoordinatorOp: &proto.ChangeConsumerGroupCoordinatorOp{GroupId: d["g"].(string), Coordinator: d["coord"].(string)}}
	}
	return &proto.RaftLog{Op: proto.Op_PUBLISH_ACTIVITY, PublishActivityOp: &proto.PublishActivityOp{RaftIndex: idx - 1}}
}

var vC06GroupPrefix = []vM{{"op": "create", "s": "s0", "n": 1, "replicas": []string{"a", "b"}}, {"op": "gcreate", "g": "g0", "coord": "a", "c": "c0", "ss": []string{"s0"}},
	{"op": "join", "g": "g0", "c": "c1", "ss": []string{"s0"}}}

type vC06Script struct {
	ops      []vM
	restarts [][2]int // (snapshot after i, stopped after m)
}

// corpus: histories that once separated a live server from a rebuilt one
var vC06Corpus = []vC06Script{
	// pause, resume, snapshot: the rebuilt server paused the partition again
	{ops: []vM{{"op": "create", "s": "s1", "n": 1, "replicas": []string{"a"}}, {"op": "pause", "s": "s1", "ps": []int32(nil), "all": false},
		{"op": "resume", "s": "s1", "ps": []int32{0}}}, restarts: [][2]int{{3, 3}}},
	// read-only, snapshot: the rebuilt log was writable
	{ops: []vM{{"op": "create", "s": "s1", "n": 2, "replicas": []string{"a", "b"}}, {"op": "readonly", "s": "s1", "ps": []int32(nil), "ro": true}}, restarts: [][2]int{{2, 2}, {0, 2}}},
	// group over two streams, one deleted, later join: full replay gave other epochs and assignments
	{ops: []vM{{"op": "create", "s": "s0", "n": 3, "replicas": []string{"d"}}, {"op": "create", "s": "s1", "n": 3, "replicas": []string{"a"}},
		{"op": "gcreate", "g": "g0", "coord": "a", "c": "c0", "ss": []string{"s0", "s1"}}, {"op": "delete", "s": "s0"},
		{"op": "join", "g": "g0", "c": "c1", "ss": []string{"s1"}}, {"op": "create", "s": "s2", "n": 1, "replicas": []string{"b"}}}, restarts: [][2]int{{0, 6}, {0, 3}, {3, 6}}},
	// a stream nobody subscribes to any more is deleted after a snapshot
	{ops: []vM{{"op": "create", "s": "s0", "n": 2, "replicas": []string{"a"}}, {"op": "create", "s": "s1", "n": 2, "replicas": []string{"b"}},
		{"op": "gcreate", "g": "g0", "coord": "a", "c": "c0", "ss": []string{"s0"}}, {"op": "join", "g": "g0", "c": "c1", "ss": []string{"s1"}},
		{"op": "leave", "g": "g0", "c": "c0"}, {"op": "delete", "s": "s0"}}, restarts: [][2]int{{5, 6}, {5, 5}, {0, 6}}},
	// members that own nothing at snapshot time (one partition, three members): their subscriptions must be in the
	// snapshot, or they never get their share once the owner leaves
	{ops: []vM{{"op": "create", "s": "s0", "n": 1, "replicas": []string{"a"}}, {"op": "gcreate", "g": "g0", "coord": "a", "c": "c0", "ss": []string{"s0"}},
		{"op": "join", "g": "g0", "c": "c1", "ss": []string{"s0"}}, {"op": "join", "g": "g0", "c": "c2", "ss": []string{"s0"}},
		{"op": "leave", "g": "g0", "c": "c0"}}, restarts: [][2]int{{4, 4}, {4, 5}, {3, 5}, {0, 5}}},
	// a member that owns nothing leaves; snapshot; a subscribed stream is deleted: nothing of the departed member
	// may be left in the live server's memory that a rebuilt server does not have
	{ops: []vM{{"op": "create", "s": "s0", "n": 1, "replicas": []string{"a"}}, {"op": "create", "s": "s1", "n": 2, "replicas": []string{"b"}},
		{"op": "gcreate", "g": "g0", "coord": "a", "c": "c0", "ss": []string{"s0", "s1"}}, {"op": "join", "g": "g0", "c": "c1", "ss": []string{"s0"}},
		{"op": "leave", "g": "g0", "c": "c1"}, {"op": "delete", "s": "s1"}, {"op": "join", "g": "g0", "c": "c2", "ss": []string{"s0"}}},
		restarts: [][2]int{{5, 5}, {5, 7}, {4, 7}, {0, 7}}},
	// delete and re-create while the server is down
	{ops: []vM{{"op": "create", "s": "s2", "n": 1, "replicas": []string{"a"}}, {"op": "delete", "s": "s2"}, {"op": "create", "s": "s2", "n": 2, "replicas": []string{"b"}}}, restarts: [][2]int{{0, 1}, {1, 1}, {0, 3}}},
}

// vC06Diff names the first difference between two observations ("" when equal); fields in skip are
// not compared.
func vC06Diff(a, b vM, skip map[string]bool) string {
	return vDiffPath("", a, b, skip)
}

func vDiffPath(path string, a, b interface{}, skip map[string]bool) string {
	switch x := a.(type) {
	case vM:
		y, ok := b.(vM)
		if !ok {
			return path + ": kinds differ"
		}
		keys := []string{}
		for k := range x {
			if !skip[k] {
				keys = append(keys, k)
			}
		}
		sort.Strings(keys)
		for _, k := range keys {
			if d := vDiffPath(path+"/"+k, x[k], y[k], skip); d != "" {
				return d
			}
		}
		return ""
	case []vM:
		y, ok := b.([]vM)
		if !ok {
			return path + ": kinds differ"
		}
		name := func(e vM) string {
			for _, k := range []string{"name", "id", "s"} {
				if v, ok := e[k]; ok {
					return fmt.Sprint(v)
				}
			}
			return "?"
		}
		if len(x) != len(y) {
			var na, nb []string
			for _, e := range x {
				na = append(na, name(e))
			}
			for _, e := range y {
				nb = append(nb, name(e))
			}
			return fmt.Sprintf("%s: %v vs %v", path, na, nb)
		}
		for i := range x {
			if d := vDiffPath(path+"["+name(x[i])+"]", x[i], y[i], skip); d != "" {
				return d
			}
		}
		return ""
	default:
		if fmt.Sprint(a) != fmt.Sprint(b) {
			return fmt.Sprintf("%s: %v vs %v", path, a, b)
		}
		return ""
	}
}

func vCanon(v interface{}, skip map[string]bool) string {
	switch x := v.(type) {
	case vM:
		keys := []string{}
		for k := range x {
			if !skip[k] {
				keys = append(keys, k)
			}
		}
		sort.Strings(keys)
		s := "{"
		for _, k := range keys {
			s += k + ":" + vCanon(x[k], skip) + " "
		}
		return s + "}"
	case []vM:
		s := "["
		for _, e := range x {
			s += vCanon(e, skip) + " "
		}
		return s + "]"
	default:
		return fmt.Sprint(v)
	}
}

func TestVerifC06(t *testing.T) {
	out := vOpenOut()
	defer out.close()
	stats := map[string]int{}
	r := vNewRand(vSeed() + 6)
	n := vEnvInt("VERIF_N", 40)
	work := os.Getenv("VERIF_WORK")
	// what is not compared between a live server and a rebuilt one: the marks (data) are judged by
	// their own oracle, resumeAll is not part of a snapshot (and not in the property's list)
	skipAsg := map[string]bool{"marks": true, "resumeAll": true, "disk": true, "activity": true}
	skipRestart := map[string]bool{"marks": true, "resumeAll": true, "disk": true, "activity": true, "asg": true}
	for id := 0; id < n+len(vC06Corpus); id++ {
		nops := 4 + r.intn(20)
		var script *vC06Script
		if id < len(vC06Corpus) {
			script = &vC06Corpus[id]
			nops = len(script.ops)
		}
		A := vNewFsm(filepath.Join(work, fmt.Sprintf("c06_%d_A", id)), true)
		B := vNewFsm(filepath.Join(work, fmt.Sprintf("c06_%d_B", id)), true)
		var raws [][]byte
		var descs []vM
		var obs []vM
		var snaps = map[int][]byte{}
		viol, vsig := "", ""
		// findings that do not end the history: the remaining rebuilds are still examined
		var soft [][2]string
		setViol := func(sig, what string) {
			if sig == "data-resurrected" || sig == "assignments-after-snapshot-restore" {
				soft = append(soft, [2]string{sig, what})
				return
			}
			if viol == "" {
				viol, vsig = what, sig
			}
		}
		for i := 1; i <= nops && viol == ""; i++ {
			var op *proto.RaftLog
			var desc vM
			if script != nil {
				desc = script.ops[i-1]
				op = vC06FromDesc(desc, uint64(i))
			} else if pre := vC06GroupPrefix; id%5 == 0 && i <= len(pre) && nops >= len(pre) {
				// every fifth history starts with a group that has more members than its stream has partitions
				desc = pre[i-1]
				op = vC06FromDesc(desc, uint64(i))
			} else {
				op, desc = vC06Gen(r, A, uint64(i))
			}
			raw, _ := op.Marshal()
			raws = append(raws, raw)
			descs = append(descs, desc)
			stats["op/"+desc["op"].(string)]++
			if err := A.apply(raw, uint64(i), false); err != nil {
				setViol("apply-failed", fmt.Sprintf("operation %d %v passed its precondition check and failed to apply: %v", i, desc, err))
				break
			}
			if err := B.apply(raw, uint64(i), false); err != nil {
				setViol("apply-failed", fmt.Sprintf("operation %d %v failed on the second server: %v", i, desc, err))
				break
			}
			if desc["op"] == "create" {
				A.mark(desc["s"].(string), fmt.Sprintf("gen%d", i))
				B.mark(desc["s"].(string), fmt.Sprintf("gen%d", i))
			}
			oa, ob := A.observe(), B.observe()
			if d := vC06Diff(oa, ob, nil); d != "" {
				setViol("servers-differ", fmt.Sprintf("two servers applied the same %d operations and %s", i, d))
			}
			obs = append(obs, oa)
			if s, err := A.snapshot(); err == nil {
				snaps[i] = s
			} else {
				setViol("snapshot-failed", err.Error())
			}
		}
		nn := len(obs)
		final := vM{}
		if nn > 0 {
			final = obs[nn-1]
		}
		A.close()
		B.close()
		// restarts: snapshot at i (0 = none), stopped after m, replay i+1..nn
		var restarts []vM
		nrestarts := 4
		if script != nil {
			nrestarts = len(script.restarts)
		}
		for k := 0; k < nrestarts && viol == "" && nn > 0; k++ {
			i := 0
			if r.intn(3) > 0 {
				i = r.intn(nn + 1)
			}
			m := i + r.intn(nn-i+1)
			if r.intn(2) == 0 {
				m = nn
			}
			if script != nil {
				i, m = script.restarts[k][0], script.restarts[k][1]
			}
			dir := filepath.Join(work, fmt.Sprintf("c06_%d_C%d", id, k))
			C := vNewFsm(dir, true)
			for j := 1; j <= m; j++ {
				C.apply(raws[j-1], uint64(j), false)
				if descs[j-1]["op"] == "create" {
					C.mark(descs[j-1]["s"].(string), fmt.Sprintf("gen%d", j))
				}
			}
			C.close()
			D := vNewFsm(dir, false)
			if i > 0 {
				if err := D.s.Restore(vNopCloser{bytes.NewReader(snaps[i])}); err != nil {
					setViol("restore-failed", fmt.Sprintf("Restore of the snapshot taken after operation %d failed: %v", i, err))
				}
			}
			for j := i + 1; j <= nn && viol == ""; j++ {
				if err := D.apply(raws[j-1], uint64(j), true); err != nil {
					setViol("replay-failed", fmt.Sprintf("snapshot at %d, stopped after %d: replay of operation %d %v failed: %v", i, m, j, descs[j-1], err))
				}
				if descs[j-1]["op"] == "create" {
					D.mark(descs[j-1]["s"].(string), fmt.Sprintf("gen%d", j)) // only where the create made new data
				}
			}
			if viol == "" {
				var ferr error
				if p := vCatch(func() { _, _, ferr = D.s.finishedRecovery(uint64(nn)) }); p != "" || ferr != nil {
					setViol("finish-failed", fmt.Sprintf("finishedRecovery failed: %v %s", ferr, p))
				}
				D.s.goroutineWait.Wait()
			}
			var od vM
			if viol == "" {
				od = D.observe()
				if d := vC06Diff(final, od, skipRestart); d != "" {
					setViol("restart-differs", fmt.Sprintf("snapshot after %d, stopped after %d, replay to %d: rebuilt state differs from the live one: %s", i, m, nn, d))
				} else if d := vC06Diff(final, od, skipAsg); d != "" {
					// the snapshot does not carry assignments; Restore re-adds the members in map order
					sig := "assignments-after-snapshot-restore"
					if i == 0 {
						sig = "restart-differs"
					}
					setViol(sig, fmt.Sprintf("snapshot after %d, stopped after %d, replay to %d: same groups and members, but the partition assignments differ from the live server's: %s", i, m, nn, d))
				}
				// data: streams that exist keep the data of their incarnation; deleted ones have none
				vC06DataOracle(final, od, descs, m, setViol, i)
				stats[fmt.Sprintf("restart/snap=%v/stopped-early=%v", i > 0, m < nn)]++
			}
			restarts = append(restarts, vM{"snap": i, "stop": m, "obs": od})
			D.close()
			os.RemoveAll(dir)
		}
		os.RemoveAll(A.dir)
		os.RemoveAll(B.dir)
		cj := vM{"k": "fsm", "id": id, "ops": descs, "obs": obs, "restarts": restarts}
		if viol != "" {
			out.emit(vM{"k": "violation", "sig": vsig, "what": viol, "case": cj})
		}
		for _, sv := range soft {
			out.emit(vM{"k": "violation", "sig": sv[0], "what": sv[1], "case": vM{"k": "fsm", "id": id, "ops": descs}})
			stats["finding/"+sv[0]]++
		}
		out.emit(cj)
	}
	out.emit(vM{"k": "stat", "dist": stats})
}

// vC06DataOracle: after a rebuild, a stream that exists at the end still has the data (marks) of
// its current incarnation if that incarnation existed when the server stopped, and no directory
// is left for a stream that does not exist at the end.
func vC06DataOracle(final, od vM, descs []vM, m int, setViol func(string, string), snap int) {
	exists := map[string]bool{}
	for _, st := range final["streams"].([]vM) {
		exists[st["name"].(string)] = true
	}
	for _, d := range od["disk"].([]string) {
		if !exists[d] {
			setViol("deleted-stream-back", fmt.Sprintf("snapshot after %d, stopped after %d: stream %s does not exist at the end of the log but its data directory does", snap, m, d))
		}
	}
	// incarnation of each stream at the end: index of its last create
	lastCreate := map[string]int{}
	for j, d := range descs {
		switch d["op"] {
		case "create":
			lastCreate[d["s"].(string)] = j + 1
		case "delete":
			delete(lastCreate, d["s"].(string))
		}
	}
	for _, st := range od["streams"].([]vM) {
		name := st["name"].(string)
		inc := lastCreate[name]
		for _, p := range st["parts"].([]vM) {
			if p["paused"].(bool) {
				continue
			}
			marks := p["marks"].([]string)
			want := fmt.Sprintf("gen%d", inc)
			if len(marks) == 1 && marks[0] == want {
				continue
			}
			if inc <= m {
				setViol("data-lost", fmt.Sprintf("snapshot after %d, stopped after %d: stream %s (created by operation %d, still existing) holds data %v after the rebuild, expected [%s]", snap, m, name, inc, marks, want))
			} else {
				setViol("data-resurrected", fmt.Sprintf("snapshot after %d, stopped after %d: stream %s was deleted and created again by operation %d, after the server stopped; after the rebuild it holds %v, the data of the deleted stream of the same name", snap, m, name, inc, marks))
			}
		}
	}
}
