package server

// C07 driver: leader reports, ISR shrink/expand requests and timer expiries on a single-node
// controller whose id is not a replica of the (phantom-replica) stream.

import (
	"context"
	"fmt"
	"sort"
	"testing"
	"time"

	"google.golang.org/grpc/codes"
	"google.golang.org/grpc/status"

	proto "github.com/liftbridge-io/liftbridge/server/protocol"
)

func vC07Rep(i int) string { return fmt.Sprintf("r%d", i) }
func vC07Id(s string) int {
	var i int
	fmt.Sscanf(s, "r%d", &i)
	return i
}

type vC07Case struct {
	srv    *vServer
	stream string
	p      *partition
	rec    []vM
	viol   string
	hadSt  bool // a failover status existed after the previous event
}

func (c *vC07Case) statusPresent() bool {
	c.srv.s.metadata.mu.RLock()
	defer c.srv.s.metadata.mu.RUnlock()
	return c.srv.s.metadata.partitionFailovers[c.p] != nil
}

// witnessCount: reports currently recorded against the partition's leader (a record that lingers after
// an election is empty).
func (c *vC07Case) witnessCount() int {
	c.srv.s.metadata.mu.RLock()
	st := c.srv.s.metadata.partitionFailovers[c.p]
	c.srv.s.metadata.mu.RUnlock()
	if st == nil {
		return 0
	}
	st.mu.Lock()
	defer st.mu.Unlock()
	return len(st.witnesses)
}

func (c *vC07Case) obs() {
	leader, le := c.p.GetLeader()
	isr := c.p.GetISR()
	var ids []int
	for _, r := range isr {
		ids = append(ids, vC07Id(r))
	}
	sort.Ints(ids)
	c.rec = append(c.rec, vM{"op": "obs", "leader": vC07Id(leader), "le": le, "pe": c.p.GetEpoch(), "isr": ids})
	// direct oracle: leader in ISR, ISR within replicas
	inISR := false
	for _, r := range isr {
		if r == leader {
			inISR = true
		}
		if !c.p.inReplicas(r) {
			c.viol = fmt.Sprintf("ISR member %s is not a replica", r)
		}
	}
	if !inISR && c.viol == "" {
		c.viol = fmt.Sprintf("leader %s is not in the ISR %v", leader, isr)
	}
}

func vC07Code(st *status.Status) string {
	if st == nil {
		return "ok"
	}
	if st.Code() == codes.FailedPrecondition {
		if len(st.Message()) >= 26 && st.Message()[:26] == "Leader generation mismatch" {
			return "stale"
		}
		if st.Message() == "No ISR candidates" {
			return "nocand"
		}
	}
	return "error:" + st.Message()
}

func TestVerifC07(t *testing.T) {
	out := vOpenOut()
	defer out.close()
	stats := map[string]int{}
	timeout := 250 * time.Millisecond
	srv := vStartServer("z", func(c *Config) { c.Clustering.ReplicaMaxLeaderTimeout = timeout })
	defer srv.stop()
	r := vNewRand(vSeed() + 7)
	n := vEnvInt("VERIF_N", 120)
	ctx := context.Background()

	runCase := func(id int, nrep int, script []vM) {
		name := fmt.Sprintf("f%d", id)
		var reps []string
		for i := 1; i <= nrep; i++ {
			reps = append(reps, vC07Rep(i))
		}
		op := &proto.RaftLog{Op: proto.Op_CREATE_STREAM, CreateStreamOp: &proto.CreateStreamOp{Stream: &proto.Stream{
			Name: name, Subject: name, Partitions: []*proto.Partition{{Subject: name, Stream: name, Id: 0,
				Replicas: append([]string{}, reps...), Isr: append([]string{}, reps...), Leader: reps[0]}}}}}
		fut, err := srv.s.getRaft().applyOperation(ctx, op, nil)
		if err != nil || fut.Error() != nil {
			t.Fatalf("create stream: %v", err)
		}
		p := srv.s.metadata.GetPartition(name, 0)
		if p == nil {
			t.Fatal("no partition")
		}
		c := &vC07Case{srv: srv, stream: name, p: p}
		leader, le := p.GetLeader()
		var isr0 []int
		for i := 1; i <= nrep; i++ {
			isr0 = append(isr0, i)
		}
		init := vM{"replicas": isr0, "leader": vC07Id(leader), "le": le, "pe": p.GetEpoch()}
		quorumSeen := map[string]bool{}
		for _, ev := range script {
			if c.viol != "" {
				break
			}
			// an expiry the driver did not ask for (slow machine) is still an event of the history
			if c.hadSt && !c.statusPresent() && ev["op"] != "expire" {
				c.rec = append(c.rec, vM{"op": "expire", "spontaneous": true})
			}
			curLeader, curLe := p.GetLeader()
			pe0 := p.GetEpoch()
			isrBefore := p.GetISR()
			switch ev["op"] {
			case "report", "shrink", "expand":
				ldr, le := curLeader, curLe
				switch ev["stale"] {
				case 1:
					le = curLe - 1
				case 2:
					le = curLe + 1
				case 3:
					ldr = vC07Rep(1 + (vC07Id(curLeader) % nrep))
				}
				rep := vC07Rep(ev["r"].(int))
				var st *status.Status
				switch ev["op"] {
				case "report":
					st = srv.s.metadata.ReportLeader(ctx, &proto.ReportLeaderOp{Stream: name, Partition: 0, Replica: rep, Leader: ldr, LeaderEpoch: le})
				case "shrink":
					if rep == curLeader {
						continue // the replicator never asks to remove the leader
					}
					st = srv.s.metadata.ShrinkISR(ctx, &proto.ShrinkISROp{Stream: name, Partition: 0, ReplicaToRemove: rep, Leader: ldr, LeaderEpoch: le})
				case "expand":
					st = srv.s.metadata.ExpandISR(ctx, &proto.ExpandISROp{Stream: name, Partition: 0, ReplicaToAdd: rep, Leader: ldr, LeaderEpoch: le})
				}
				code := vC07Code(st)
				newLeader, newLe := p.GetLeader()
				o := vM{"op": ev["op"], "r": ev["r"], "ldr": vC07Id(ldr), "le": le, "code": code, "i": p.GetEpoch(), "pick": vC07Id(newLeader)}
				if p.GetEpoch() == pe0 {
					o["i"] = pe0 + 1
				}
				c.rec = append(c.rec, o)
				stats[fmt.Sprintf("%s/%s", ev["op"], code)]++
				// direct oracle
				stale := ldr != curLeader || le != curLe
				if stale {
					if code != "stale" || newLeader != curLeader || newLe != curLe || p.GetEpoch() != pe0 {
						c.viol = fmt.Sprintf("%s naming (%s, %d) while the current leader is (%s, %d): answered %q", ev["op"], ldr, le, curLeader, curLe, code)
					}
				} else if ev["op"] == "report" {
					quorumSeen[rep] = true
					if newLeader != curLeader {
						stats["elections"]++
						inISR, wasLeader := false, newLeader == curLeader
						for _, x := range isrBefore {
							if x == newLeader {
								inISR = true
							}
						}
						if !inISR || wasLeader {
							c.viol = fmt.Sprintf("elected %s, ISR was %v, reported leader %s", newLeader, isrBefore, curLeader)
						}
						if newLe <= curLe || p.GetEpoch() <= pe0 {
							c.viol = fmt.Sprintf("election did not increase the epochs: leader epoch %d -> %d, partition epoch %d -> %d", curLe, newLe, pe0, p.GetEpoch())
						}
						// quorum: in-sync followers that reported THIS (leader, epoch)
						cnt := 0
						for _, x := range isrBefore {
							if x != curLeader && quorumSeen[x] {
								cnt++
							}
						}
						if cnt <= (len(isrBefore)-1)/2 {
							c.viol = fmt.Sprintf("leader %s (epoch %d) replaced after reports by %d in-sync followers out of ISR %v: not more than (|ISR|-1)/2", curLeader, curLe, cnt, isrBefore)
						}
						quorumSeen = map[string]bool{}
					} else if newLe != curLe {
						// a new leader epoch with the same leader: the failover "elected" the leader that was reported
						c.viol = fmt.Sprintf("the failover after the report by %s re-elected the reported leader %s itself (leader epoch %d -> %d, ISR %v)", rep, curLeader, curLe, newLe, isrBefore)
					}
				}
			case "expire":
				time.Sleep(timeout + timeout/2)
				if c.hadSt && c.witnessCount() > 0 {
					// reports are only good for the timeout window: with nothing reported for one and a half
					// windows the record of witnesses has to be gone, whatever failovers came before
					c.viol = fmt.Sprintf("reports against leader %s (epoch %d) were recorded; nothing was reported for %v (the window is %v) and the record is still there: later reports will be added to expired ones", curLeader, curLe, timeout+timeout/2, timeout)
				}
				if c.hadSt && !c.statusPresent() {
					c.rec = append(c.rec, vM{"op": "expire"})
					quorumSeen = map[string]bool{}
					stats["expire"]++
				}
			}
			c.hadSt = c.statusPresent()
			c.obs()
		}
		cj := vM{"k": "fo", "id": id, "init": init, "ops": c.rec}
		if c.viol != "" {
			out.emit(vM{"k": "violation", "sig": "failover", "what": c.viol, "case": cj})
		}
		out.emit(cj)
	}

	// corpus: b and c report a; then one report by an id that is not a replica
	runCase(0, 3, []vM{{"op": "report", "r": 2}, {"op": "report", "r": 3}, {"op": "report", "r": 9}, {"op": "report", "r": 3}})
	// corpus: a failover; then one follower reports the new leader and nothing follows for more than the
	// window: that report has expired when the other follower reports
	runCase(100000, 3, []vM{{"op": "report", "r": 2}, {"op": "report", "r": 3}, {"op": "report", "r": 1}, {"op": "expire"}, {"op": "report", "r": 2}, {"op": "report", "r": 3}})
	for id := 1; id <= n; id++ {
		nrep := 2 + r.pick(1, 5, 1, 3)
		var script []vM
		for j := 0; j < 4+r.intn(10); j++ {
			stale := 0
			if r.intn(6) == 0 {
				stale = 1 + r.intn(3)
			}
			switch r.pick(8, 2, 2, 1) {
			case 0:
				rep := 1 + r.intn(nrep)
				if r.intn(10) == 0 {
					rep = nrep + 1 + r.intn(2) // not a replica
				}
				script = append(script, vM{"op": "report", "r": rep, "stale": stale})
			case 1:
				script = append(script, vM{"op": "shrink", "r": 1 + r.intn(nrep), "stale": stale})
			case 2:
				script = append(script, vM{"op": "expand", "r": 1 + r.intn(nrep), "stale": stale})
			default:
				if id%4 == 0 {
					script = append(script, vM{"op": "expire"})
				}
			}
		}
		runCase(id, nrep, script)
	}
	out.emit(vM{"k": "stat", "dist": stats})
}
