package server

// C10 driver: the partition log of a single-node server is shaped by the driver (appends with
// chosen timestamps and keys, compaction, retention, HW, read-only), then partition.Subscribe is
// called for many (start, stop, direction) requests and its message / status channels drained.

import (
	"context"
	"fmt"
	"testing"
	"time"

	client "github.com/liftbridge-io/liftbridge-api/v2/go"
	"google.golang.org/grpc/codes"

	"github.com/liftbridge-io/liftbridge/server/commitlog"
)

type vC10Rec struct {
	off, ts int64
	key     []byte
	body    string
}

type vC10Case struct {
	srv   *vServer
	p     *partition
	name  string
	maxb  int64
	ops   []vM
	ref   []vC10Rec // retained records (own bookkeeping)
	hw    int64
	ro    bool
	ts    int64
	viol  string
	vsig  string
	stats map[string]int
}

func (c *vC10Case) violation(sig, what string) {
	if c.viol == "" {
		c.viol, c.vsig = what, sig
	}
}

func (c *vC10Case) appendMsgs(r *vRand, n int, pool [][]byte) {
	var msgs []*commitlog.Message
	var mj []vM
	for i := 0; i < n; i++ {
		c.ts += int64(2 + r.intn(6))
		m := &commitlog.Message{MagicByte: 1, Timestamp: c.ts, LeaderEpoch: 1, Offset: -1, Value: r.bytesN(1 + r.intn(12)),
			Headers: map[string][]byte{}}
		if pool != nil {
			m.Key = pool[r.intn(len(pool))]
		}
		msgs = append(msgs, m)
	}
	offs, err := c.p.log.Append(msgs)
	if err != nil {
		c.violation("append-failed", err.Error())
		return
	}
	// read the stored bodies back so that the model sees exactly the stored bytes
	rd, err := c.p.log.NewReader(offs[0], true)
	if err != nil {
		c.violation("append-readback", err.Error())
		return
	}
	hb := make([]byte, 28)
	for i := range msgs {
		ctx, cancel := context.WithCancel(context.Background())
		cancel()
		sm, off, ts, ep, err := rd.ReadMessage(ctx, hb)
		if err != nil || off != offs[i] {
			c.violation("append-readback", fmt.Sprint(err))
			return
		}
		body := vHex(append([]byte{}, sm...))
		mj = append(mj, vM{"ts": ts, "ep": ep, "body": body, "exp": -1})
		c.ref = append(c.ref, vC10Rec{off: off, ts: ts, key: msgs[i].Key, body: body})
	}
	c.ops = append(c.ops, vM{"op": "append", "msgs": mj, "res": 0, "offs": offs})
}

func (c *vC10Case) setHW(h int64) {
	c.p.log.OverrideHighWatermark(h)
	c.hw = h
	c.ops = append(c.ops, vM{"op": "hwset", "h": h})
}

func (c *vC10Case) clean(compact bool) {
	if err := c.p.log.Clean(); err != nil {
		c.violation("clean-failed", err.Error())
		return
	}
	if compact {
		c.ops = append(c.ops, vM{"op": "cleanc", "ttl": 0})
	} else {
		c.ops = append(c.ops, vM{"op": "clean", "ttl": 0})
	}
	// re-read what is retained
	var kept []vC10Rec
	rd, err := c.p.log.NewReader(c.firstOffset(), true)
	if err == nil {
		hb := make([]byte, 28)
		byOff := map[int64]vC10Rec{}
		for _, r := range c.ref {
			byOff[r.off] = r
		}
		for {
			ctx, cancel := context.WithCancel(context.Background())
			cancel()
			_, off, _, _, err := rd.ReadMessage(ctx, hb)
			if err != nil {
				break
			}
			kept = append(kept, byOff[off])
		}
	}
	if len(kept) < len(c.ref) {
		c.stats["shape/records-removed"]++
	}
	c.ref = kept
}

func (c *vC10Case) firstOffset() int64 {
	if o := c.p.log.OldestOffset(); o >= 0 {
		return o
	}
	return c.p.log.NewestOffset() + 1
}

type vC10Req struct {
	startKind string // offset earliest latest newonly ts
	startArg  int64
	stopKind  string // cancel offset latest ts
	stopArg   int64
	reverse   bool
}

func (c *vC10Case) subscribe(q vC10Req) {
	req := &client.SubscribeRequest{Stream: c.name, Partition: 0, Reverse: q.reverse}
	switch q.startKind {
	case "offset":
		req.StartPosition, req.StartOffset = client.StartPosition_OFFSET, q.startArg
	case "earliest":
		req.StartPosition = client.StartPosition_EARLIEST
	case "latest":
		req.StartPosition = client.StartPosition_LATEST
	case "newonly":
		req.StartPosition = client.StartPosition_NEW_ONLY
	case "ts":
		req.StartPosition, req.StartTimestamp = client.StartPosition_TIMESTAMP, q.startArg
	}
	switch q.stopKind {
	case "cancel":
		req.StopPosition = client.StopPosition_STOP_ON_CANCEL
	case "offset":
		req.StopPosition, req.StopOffset = client.StopPosition_STOP_OFFSET, q.stopArg
	case "latest":
		req.StopPosition = client.StopPosition_STOP_LATEST
	case "ts":
		req.StopPosition, req.StopTimestamp = client.StopPosition_STOP_TIMESTAMP, q.stopArg
	}
	ctx, cancel := context.WithCancel(context.Background())
	defer cancel()
	sub, st := c.p.Subscribe(ctx, req)
	o := vM{"op": "sub", "sk": q.startKind, "sa": q.startArg, "tk": q.stopKind, "ta": q.stopArg, "rev": q.reverse}
	var offs []int64
	end := ""
	if st != nil {
		switch {
		case st.Code() == codes.InvalidArgument:
			end = "invalid"
		case st.Code() == codes.ResourceExhausted && st.Message() == "Stream is empty":
			end = "empty"
		case st.Code() == codes.Internal && len(st.Message()) > 30 && st.Message()[:30] == "Failed to create stream reader":
			end = "noreader"
		default:
			end = "error:" + st.Message()
		}
	} else {
		idle := time.NewTimer(40 * time.Millisecond)
	loop:
		for len(offs) < 10000 {
			select {
			case m := <-sub.Messages():
				offs = append(offs, m.Offset)
				if !idle.Stop() {
					select {
					case <-idle.C:
					default:
					}
				}
				idle.Reset(40 * time.Millisecond)
			case e := <-sub.Errors():
				switch {
				case e.Code() == codes.ResourceExhausted && e.Message() == "Stop offset reached":
					end = "stop"
				case e.Code() == codes.ResourceExhausted && e.Message() == "End of readonly partition":
					end = "roend"
				case e.Message() == "EOF":
					end = "eof"
				default:
					end = "error:" + e.Message()
				}
				break loop
			case <-idle.C:
				end = "wait"
				break loop
			}
		}
		cancel()
		sub.Close()
		// let the loop goroutine finish before the next request
		deadline := time.Now().Add(time.Second)
		for vC13SubscriberCount(c.p) != 0 && time.Now().Before(deadline) {
			select {
			case <-sub.Errors():
			default:
			}
			time.Sleep(200 * time.Microsecond)
		}
	}
	o["offs"], o["end"] = offs, end
	c.ops = append(c.ops, o)
	c.stats["sub/"+map[bool]string{false: "fwd", true: "rev"}[q.reverse]+"/"+q.startKind+"/"+q.stopKind+"/"+end]++
	c.oracle(q, offs, end)
}

// oracle: the documented meaning of the request, on the driver's own record of the log.
func (c *vC10Case) oracle(q vC10Req, offs []int64, end string) {
	newest := c.p.log.NewestOffset()
	var first int64 = newest + 1
	if len(c.ref) > 0 {
		first = c.ref[0].off
	}
	// resolve start
	var start int64
	switch q.startKind {
	case "offset":
		start = q.startArg
	case "earliest":
		start = first
		if len(c.ref) == 0 {
			start = 0
		}
	case "latest":
		start = newest
	case "newonly":
		start = newest + 1
	case "ts":
		start = newest + 1
		for _, r := range c.ref {
			if r.ts >= q.startArg {
				start = r.off
				break
			}
		}
	}
	if start < 0 {
		start = 0
	}
	// resolve stop
	hasStop := true
	var stop int64
	switch q.stopKind {
	case "cancel":
		hasStop = c.ro
		stop = newest
	case "offset":
		stop = q.stopArg
	case "latest":
		stop = newest
		if newest == -1 {
			if end != "empty" {
				c.violation("stop-latest-empty", "STOP_LATEST on an empty stream answered "+end)
			}
			return
		}
	case "ts":
		if len(c.ref) == 0 || q.stopArg < c.ref[0].ts {
			return // before the beginning of the log: an error is documented
		}
		stop = c.ref[0].off
		for _, r := range c.ref {
			if r.ts <= q.stopArg {
				stop = r.off
			}
		}
	}
	if end == "invalid" {
		if hasStop && ((!q.reverse && stop < start) || (q.reverse && stop > start)) {
			return // an empty range is refused
		}
		c.violation(fmt.Sprintf("range-refused/rev=%v", q.reverse), fmt.Sprintf("request start=%s/%d (=%d) stop=%s/%d (=%d) reverse=%v refused as invalid", q.startKind, q.startArg, start, q.stopKind, q.stopArg, stop, q.reverse))
		return
	}
	if len(end) > 6 && end[:6] == "error:" {
		c.violation("subscribe-error/"+q.startKind+"/"+q.stopKind, fmt.Sprintf("request start=%s/%d stop=%s/%d reverse=%v failed: %s", q.startKind, q.startArg, q.stopKind, q.stopArg, q.reverse, end))
		return
	}
	if end == "noreader" {
		return // a start beyond the log end (uncommitted readers) -- not a range question
	}
	var want []int64
	if !q.reverse {
		for _, r := range c.ref {
			if r.off >= start && r.off <= c.hw && (!hasStop || r.off <= stop) {
				want = append(want, r.off)
			}
		}
	} else {
		eff := start
		if eff > c.hw {
			eff = c.hw
		}
		for i := len(c.ref) - 1; i >= 0; i-- {
			r := c.ref[i]
			if r.off <= eff && r.off <= c.hw && (!hasStop || r.off >= stop) {
				want = append(want, r.off)
			}
		}
	}
	if fmt.Sprint(offs) != fmt.Sprint(want) {
		c.violation(fmt.Sprintf("range-content/rev=%v/%s/%s", q.reverse, q.startKind, q.stopKind),
			fmt.Sprintf("start=%s/%d (=%d) stop=%s/%d (=%d, given=%v) reverse=%v hw=%d readonly=%v retained=%v: delivered %v, the requested range holds %v (ended with %q)",
				q.startKind, q.startArg, start, q.stopKind, q.stopArg, stop, hasStop, q.reverse, c.hw, c.ro, c.refOffs(), offs, want, end))
		return
	}
	// end status, where the documentation is explicit
	if end == "roend" && !(c.ro && c.hw == newest) {
		// "end of readonly partition" says that nothing more can follow: only true of a read-only log
		// whose HW has reached its end; below that the rest of the range is still to be committed
		c.violation("range-end/readonly-end-below-log-end", fmt.Sprintf("start=%d stop=%d (given=%v) hw=%d newest=%d readonly=%v: the subscription ended with \"end of readonly partition\" after %v although offsets up to %d are in the log and in the range",
			start, stop, hasStop, c.hw, newest, c.ro, offs, newest))
		return
	}
	if !q.reverse && hasStop {
		reached := false
		for _, r := range c.ref {
			if r.off >= stop && r.off <= c.hw {
				reached = true
			}
		}
		if reached && end != "stop" && end != "roend" {
			c.violation("range-end/fwd", fmt.Sprintf("start=%d stop=%d: the stop position is committed but the subscription ended with %q", start, stop, end))
		}
		if !reached && end != "wait" && end != "roend" {
			c.violation("range-end/fwd", fmt.Sprintf("start=%d stop=%d hw=%d: the stop position is not reached but the subscription ended with %q", start, stop, c.hw, end))
		}
	}
	if !q.reverse && !hasStop && end != "wait" {
		c.violation("range-end/fwd", fmt.Sprintf("stop-on-cancel subscription ended with %q", end))
	}
}

func (c *vC10Case) refOffs() []int64 {
	var o []int64
	for _, r := range c.ref {
		o = append(o, r.off)
	}
	return o
}

// live: a forward subscription that has caught up with the HW stays open while messages are
// appended, the log is cleaned (segments replaced by compaction, deleted by retention) and the HW
// moves on; it must then deliver exactly the retained messages above the old HW, each once.
func (c *vC10Case) live(r *vRand, pool [][]byte, compact, cleans bool) {
	var cands []int64
	for _, x := range c.ref {
		if x.off <= c.hw {
			cands = append(cands, x.off)
		}
	}
	if len(cands) == 0 {
		return
	}
	start := cands[r.intn(len(cands))]
	ctx, cancel := context.WithCancel(context.Background())
	defer cancel()
	req := &client.SubscribeRequest{Stream: c.name, Partition: 0, StartPosition: client.StartPosition_OFFSET, StartOffset: start}
	// one in three: a subscriber that only wants what comes after now (its reader starts beyond the HW);
	// several messages are then appended, across segment boundaries, and committed in one step
	newOnly := r.intn(3) == 0
	if newOnly {
		req = &client.SubscribeRequest{Stream: c.name, Partition: 0, StartPosition: client.StartPosition_NEW_ONLY}
		// (a start beyond the HW is capped to HW+1: the contract pinned by TestReaderCommittedCapOffset and
		// TestSubscribeOffsetOverflow, DESIGN 0.3 -- uncommitted messages below the log end are delivered too)
		start = c.hw + 1
	}
	sub, st := c.p.Subscribe(ctx, req)
	if st != nil {
		c.violation("live-subscribe-refused", st.Message())
		return
	}
	drain := func() ([]int64, string) {
		var offs []int64
		idle := time.NewTimer(60 * time.Millisecond)
		defer idle.Stop()
		for {
			select {
			case m := <-sub.Messages():
				offs = append(offs, m.Offset)
				if !idle.Stop() {
					select {
					case <-idle.C:
					default:
					}
				}
				idle.Reset(60 * time.Millisecond)
			case e := <-sub.Errors():
				return offs, e.Message()
			case <-idle.C:
				return offs, ""
			}
		}
	}
	want := func(lo, hi int64) []int64 {
		var w []int64
		for _, x := range c.ref {
			if x.off >= lo && x.off <= hi {
				w = append(w, x.off)
			}
		}
		return w
	}
	got1, e1 := drain()
	if newOnly {
		if e1 != "" || len(got1) != 0 {
			c.violation("live-new-only", fmt.Sprintf("NEW_ONLY subscription (hw %d) delivered %v %q before anything was committed", c.hw, got1, e1))
			return
		}
		c.appendMsgs(r, 3+r.intn(6), pool)
		c.setHW(c.p.log.NewestOffset())
		got, e := drain()
		if w := want(start, c.hw); e != "" || fmt.Sprint(got) != fmt.Sprint(w) {
			c.violation("live-new-only", fmt.Sprintf("NEW_ONLY subscription opened with hw %d; messages appended and everything committed in one step (hw %d): delivered %v %q, the log holds %v above the old hw", start-1, c.hw, got, e, w))
		}
		c.stats["live/new-only"]++
		cancel()
		sub.Close()
		deadline := time.Now().Add(time.Second)
		for vC13SubscriberCount(c.p) != 0 && time.Now().Before(deadline) {
			select {
			case <-sub.Errors():
			default:
			}
			time.Sleep(200 * time.Microsecond)
		}
		return
	}
	if w := want(start, c.hw); e1 != "" || fmt.Sprint(got1) != fmt.Sprint(w) {
		c.violation("live-first-batch", fmt.Sprintf("live subscription from %d (hw %d) delivered %v %q, retained committed messages are %v", start, c.hw, got1, e1, w))
		return
	}
	oldHW := c.hw
	c.appendMsgs(r, 1+r.intn(3), pool)
	if cleans {
		c.clean(compact)
	}
	if r.intn(2) == 0 {
		c.appendMsgs(r, 1+r.intn(3), pool)
	}
	c.setHW(c.p.log.NewestOffset())
	got2, e2 := drain()
	if w := want(oldHW+1, c.hw); e2 != "" || fmt.Sprint(got2) != fmt.Sprint(w) {
		c.violation("live-across-clean", fmt.Sprintf("live subscription caught up at hw %d; after appends%s and hw %d it delivered %v %q, retained messages above the old hw are %v",
			oldHW, map[bool]string{true: " and a clean", false: ""}[cleans], c.hw, got2, e2, w))
	}
	c.stats["live/"+map[bool]string{true: "clean", false: "noclean"}[cleans]]++
	cancel()
	sub.Close()
	deadline := time.Now().Add(time.Second)
	for vC13SubscriberCount(c.p) != 0 && time.Now().Before(deadline) {
		select {
		case <-sub.Errors():
		default:
		}
		time.Sleep(200 * time.Microsecond)
	}
}

func TestVerifC10(t *testing.T) {
	out := vOpenOut()
	defer out.close()
	stats := map[string]int{}
	srv := vStartServer("c10", nil)
	defer srv.stop()
	r := vNewRand(vSeed() + 10)
	n := vEnvInt("VERIF_N", 40)
	for id := 0; id < n; id++ {
		name := fmt.Sprintf("r%d", id)
		shape := []string{"dense", "dense-1seg", "sparse", "trimmed", "empty", "readonly", "sparse-readonly"}[r.pick(4, 2, 4, 3, 1, 2, 1)]
		maxb := int64([]int{90, 140, 200}[r.intn(3)])
		if shape == "dense-1seg" {
			maxb = 1 << 20
		}
		retMsgs := int64(0)
		if shape == "trimmed" {
			retMsgs = int64(2 + r.intn(5))
		}
		compact := shape == "sparse" || shape == "sparse-readonly"
		err := srv.createStream(name, 1, func(q *client.CreateStreamRequest) {
			q.SegmentMaxBytes = &client.NullableInt64{Value: maxb}
			q.CleanerInterval = &client.NullableInt64{Value: int64(time.Hour)}
			q.CompactEnabled = &client.NullableBool{Value: compact}
			if retMsgs > 0 {
				q.RetentionMaxMessages = &client.NullableInt64{Value: retMsgs}
			}
		})
		if err != nil {
			t.Fatal(err)
		}
		p := srv.waitLeader(name, 0)
		c := &vC10Case{srv: srv, p: p, name: name, maxb: maxb, hw: -1, ts: time.Now().UnixNano(), stats: stats} // wall-clock sized timestamps: the server rolls segments by age
		stats["shape/"+shape]++
		if shape != "empty" {
			var pool [][]byte
			if compact {
				pool = [][]byte{[]byte("a"), []byte("b"), nil, []byte("c")}
			}
			nb := 3 + r.intn(8)
			for b := 0; b < nb && c.viol == ""; b++ {
				c.appendMsgs(r, 1+r.intn(3), pool)
			}
			newest := p.log.NewestOffset()
			hw := newest
			if r.intn(3) == 0 {
				hw = int64(r.intn(int(newest) + 1))
			}
			c.setHW(hw)
			if compact || retMsgs > 0 {
				c.clean(compact)
				// the newest retained records may sit above a low HW after retention: keep the HW inside the log
				if len(c.ref) > 0 && c.hw < c.ref[0].off {
					c.setHW(c.ref[0].off)
				}
			}
		}
		if (shape == "readonly" || shape == "sparse-readonly") && c.viol == "" {
			p.log.SetReadonly(true)
			c.ro = true
			c.ops = append(c.ops, vM{"op": "ro", "b": true})
		}
		// requests
		newest := p.log.NewestOffset()
		tsOf := func() int64 {
			if len(c.ref) == 0 {
				return c.ts + int64(r.intn(20))
			}
			x := c.ref[r.intn(len(c.ref))].ts
			return x + int64(r.intn(5)) - 2
		}
		offOf := func() int64 { return int64(r.intn(int(newest)+4)) - 1 }
		nreq := 14
		for k := 0; k < nreq && c.viol == ""; k++ {
			q := vC10Req{reverse: r.intn(3) == 0}
			q.startKind = []string{"offset", "earliest", "latest", "newonly", "ts"}[r.pick(5, 2, 2, 1, 3)]
			switch q.startKind {
			case "offset":
				q.startArg = offOf()
				if q.startArg < 0 {
					q.startArg = 0
				}
			case "ts":
				q.startArg = tsOf()
			}
			q.stopKind = []string{"cancel", "offset", "latest", "ts"}[r.pick(3, 4, 2, 3)]
			switch q.stopKind {
			case "offset":
				q.stopArg = offOf()
				if q.stopArg < 0 {
					q.stopArg = 0
				}
			case "ts":
				q.stopArg = tsOf()
			}
			c.subscribe(q)
		}
		if !c.ro && shape != "empty" && c.viol == "" && len(c.ref) > 0 {
			var pool [][]byte
			if compact {
				pool = [][]byte{[]byte("a"), []byte("b"), nil, []byte("c")}
			}
			c.live(r, pool, compact, compact || retMsgs > 0)
		}
		cj := vM{"k": "log", "id": id, "profile": "c10:" + shape, "maxb": maxb, "cc": false, "ret_bytes": 0, "ret_msgs": retMsgs, "ret_age": 0, "compact": compact, "ops": c.ops}
		if c.viol != "" {
			out.emit(vM{"k": "violation", "sig": c.vsig, "what": c.viol, "case": cj})
		}
		out.emit(cj)
	}
	out.emit(vM{"k": "stat", "dist": stats})
}
