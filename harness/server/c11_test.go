package server

// C11 driver: SetCursor / FetchCursor histories over many cursor keys on a single-node server
// whose cursors partition rolls small segments, with cache evictions and purges, the cache
// switched off, explicit cleans (compaction) of the cursors partition, pause/resume and server
// restarts; then concurrent rounds (one writer per key, several readers, a cache purger).

import (
	"context"
	"fmt"
	"sync"
	"sync/atomic"
	"testing"
	"time"

	lru "github.com/hashicorp/golang-lru"
	client "github.com/liftbridge-io/liftbridge-api/v2/go"

	proto "github.com/liftbridge-io/liftbridge/server/protocol"
)

type vC11Case struct {
	srv    *vServer
	evs    []vM
	viol   string
	vsig   string
	stats  map[string]int
	keyIdx map[string]int
	prefix string
	stop   bool
}

func (c *vC11Case) violation(sig, what string) {
	if c.viol == "" {
		c.viol, c.vsig = what, sig
	}
}

func (c *vC11Case) ident(i int) (string, string, int32) {
	// cursors of one consumer on several stream partitions, among them names and numbers that only the
	// separators of the cursor key keep apart ("foo1" partition 0, "foo" partition 10)
	v := []struct {
		stream string
		part   int32
	}{{"foo", 0}, {"foo", 1}, {"foo1", 0}, {"foo", 10}}[i%4]
	return fmt.Sprintf("%sc%d", c.prefix, i/4), v.stream, v.part
}

func (c *vC11Case) keyOf(i int) string {
	id, st, p := c.ident(i)
	k := string(c.srv.s.cursors.getCursorKey(id, st, p))
	c.keyIdx[k] = i
	return k
}

func (c *vC11Case) set(i int, v int64) bool {
	id, st, p := c.ident(i)
	c.keyOf(i)
	ctx, cancel := context.WithTimeout(context.Background(), 10*time.Second)
	defer cancel()
	_, err := c.srv.api.SetCursor(ctx, &client.SetCursorRequest{Stream: st, Partition: p, CursorId: id, Offset: v})
	if err != nil {
		// a failed ALL-policy publish may or may not have been stored: the history ends here
		c.stats["set/failed"]++
		c.stop = true
		return false
	}
	c.evs = append(c.evs, vM{"op": "set", "k": i, "v": v, "ok": true})
	return true
}

// failedSet: a SetCursor that fails before anything is published (the cursors partition is read-only
// for the duration of the call). The cursor keeps its value.
func (c *vC11Case) failedSet(i int, v int64) {
	p := c.srv.s.metadata.GetPartition(cursorsStream, 0)
	if p == nil || p.IsPaused() {
		return
	}
	id, st, pt := c.ident(i)
	c.keyOf(i)
	before := p.log.NewestOffset()
	p.log.SetReadonly(true)
	ctx, cancel := context.WithTimeout(context.Background(), 5*time.Second)
	_, err := c.srv.api.SetCursor(ctx, &client.SetCursorRequest{Stream: st, Partition: pt, CursorId: id, Offset: v})
	cancel()
	p.log.SetReadonly(false)
	if err == nil || p.log.NewestOffset() != before {
		// not the failure this step is about (the publish went through, or may have): the history ends here
		c.stats["set/failed-unclear"]++
		c.stop = true
		return
	}
	c.stats["set/failed-readonly"]++
	c.evs = append(c.evs, vM{"op": "set", "k": i, "v": v, "ok": false})
}

func (c *vC11Case) fetch(i int) (int64, error) {
	id, st, p := c.ident(i)
	var last error
	for try := 0; try < 3; try++ {
		ctx, cancel := context.WithTimeout(context.Background(), 10*time.Second)
		resp, err := c.srv.api.FetchCursor(ctx, &client.FetchCursorRequest{Stream: st, Partition: p, CursorId: id})
		cancel()
		if err == nil {
			return resp.Offset, nil
		}
		last = err
		c.stats["get/error-retried"]++
		time.Sleep(150 * time.Millisecond)
	}
	return 0, last
}

func (c *vC11Case) get(i int) {
	c.keyOf(i)
	scan := c.srv.s.cursors.disableCache
	got, err := c.fetch(i)
	if err != nil {
		c.violation("fetch-error", fmt.Sprintf("FetchCursor for key %d keeps failing: %v", i, err))
		return
	}
	c.evs = append(c.evs, vM{"op": "get", "k": i, "scan": scan, "got": got})
}

// readLog returns the (key index, cursor offset) content of the cursors partition.
func (c *vC11Case) readLog() ([][2]int64, bool) {
	p := c.srv.s.metadata.GetPartition(cursorsStream, 0)
	if p == nil || p.IsPaused() {
		return nil, false
	}
	first := p.log.OldestOffset()
	if first < 0 {
		return [][2]int64{}, true
	}
	rd, err := p.log.NewReader(first, true)
	if err != nil {
		return nil, false
	}
	out := [][2]int64{}
	hb := make([]byte, 28)
	for {
		ctx, cancel := context.WithCancel(context.Background())
		cancel()
		sm, _, _, _, err := rd.ReadMessage(ctx, hb)
		if err != nil {
			break
		}
		cur := new(proto.Cursor)
		if err := cur.Unmarshal(sm.Value()); err != nil {
			c.violation("log-garbage", "a message in the cursors partition is not a cursor")
			return nil, false
		}
		idx, ok := c.keyIdx[string(sm.Key())]
		if !ok {
			idx = 1000 + len(c.keyIdx)
			c.keyIdx[string(sm.Key())] = idx
		}
		out = append(out, [2]int64{int64(idx), cur.Offset})
	}
	return out, true
}

func (c *vC11Case) observe() {
	log, ok := c.readLog()
	if !ok {
		return
	}
	cache := [][2]int64{}
	for _, k := range c.srv.s.cursors.cache.Keys() {
		if v, ok := c.srv.s.cursors.cache.Peek(k); ok {
			if idx, known := c.keyIdx[k.(string)]; known {
				cache = append(cache, [2]int64{int64(idx), v.(int64)})
			}
		}
	}
	c.evs = append(c.evs, vM{"op": "obs", "cache": cache, "log": log})
}

func (c *vC11Case) clean() {
	p := c.srv.s.metadata.GetPartition(cursorsStream, 0)
	if p == nil || p.IsPaused() {
		return
	}
	before, _ := c.readLog()
	if err := p.log.Clean(); err != nil {
		c.violation("clean-failed", err.Error())
		return
	}
	after, ok := c.readLog()
	if !ok {
		return
	}
	if len(after) < len(before) {
		c.stats["clean/removed-records"]++
	} else {
		c.stats["clean/nothing-removed"]++
	}
	c.evs = append(c.evs, vM{"op": "clean", "log": after})
}

func (c *vC11Case) pause() {
	ctx, cancel := context.WithTimeout(context.Background(), 10*time.Second)
	defer cancel()
	if _, err := c.srv.api.PauseStream(ctx, &client.PauseStreamRequest{Name: cursorsStream}); err != nil {
		c.stats["pause/refused"]++
		return
	}
	c.stats["pause/ok"]++
}

func (c *vC11Case) restart() {
	if err := c.srv.restart(); err != nil {
		c.violation("restart-failed", err.Error())
		return
	}
	// a partition paused before the restart stays paused until the next publish or subscribe
	deadline := time.Now().Add(10 * time.Second)
	for time.Now().Before(deadline) {
		if p := c.srv.s.metadata.GetPartition(cursorsStream, 0); p != nil && (p.IsLeader() || p.IsPaused()) {
			break
		}
		time.Sleep(5 * time.Millisecond)
	}
	c.evs = append(c.evs, vM{"op": "purge"})
}

func vC11Config(cfg *Config) {
	cfg.CursorsStream.Partitions = 1
	cfg.Streams.SegmentMaxBytes = 700
}

func TestVerifC11(t *testing.T) {
	out := vOpenOut()
	defer out.close()
	stats := map[string]int{}
	r := vNewRand(vSeed() + 11)
	n := vEnvInt("VERIF_N", 6)
	for id := 0; id < n; id++ {
		srv := vStartServer(fmt.Sprintf("c11x%d", id), vC11Config)
		srv.waitLeader(cursorsStream, 0)
		c := &vC11Case{srv: srv, stats: stats, keyIdx: map[string]int{}}
		small := r.intn(2) == 0
		installCache := func() {
			if small {
				// a 3-entry LRU makes natural evictions part of every history
				cache, _ := lru.New(3)
				c.srv.s.cursors.cache = cache
			}
		}
		installCache()
		nkeys := 2 + r.intn(9)
		steps := 40 + r.intn(60)
		next := int64(0)
		for j := 0; j < steps && c.viol == "" && !c.stop; j++ {
			switch r.pick(30, 30, 6, 4, 4, 8, 3, 2, 8, 5) {
			case 0:
				next += int64(1 + r.intn(5))
				v := next
				if r.intn(8) == 0 {
					v = int64(r.intn(3)) - 1 // -1, 0, 1: values that look like "no cursor"
				}
				c.set(r.intn(nkeys), v)
				stats["op/set"]++
			case 1:
				c.get(r.intn(nkeys + 1)) // sometimes a key never set
				stats["op/get"]++
			case 2:
				k := r.intn(nkeys)
				c.srv.s.cursors.cache.Remove(c.keyOf(k))
				c.evs = append(c.evs, vM{"op": "evict", "k": k})
				stats["op/evict"]++
			case 3:
				c.srv.s.cursors.BecomePartitionLeader()
				c.evs = append(c.evs, vM{"op": "purge"})
				stats["op/purge"]++
			case 4:
				c.srv.s.cursors.disableCache = !c.srv.s.cursors.disableCache
				stats["op/cache-toggle"]++
			case 5:
				c.clean()
				stats["op/clean"]++
			case 6:
				c.pause()
				stats["op/pause"]++
			case 7:
				dis := c.srv.s.cursors.disableCache
				c.restart()
				if c.viol == "" {
					c.srv.s.cursors.disableCache = dis
					installCache()
				}
				stats["op/restart"]++
			case 9:
				k := r.intn(nkeys)
				c.failedSet(k, next+1000)
				if r.intn(2) == 0 && c.viol == "" && !c.stop {
					c.get(k)
				}
				stats["op/failed-set"]++
			default:
				c.observe()
				stats["op/observe"]++
			}
		}
		if c.viol == "" && !c.stop {
			for k := 0; k < nkeys; k++ {
				c.get(k)
			}
			c.observe()
		}
		cj := vM{"k": "cur", "id": id, "evs": c.evs}
		if c.viol != "" {
			out.emit(vM{"k": "violation", "sig": c.vsig, "what": c.viol, "case": cj})
		}
		out.emit(cj)
		if id == n-1 {
			vC11Concurrent(c, r, out, stats)
		}
		c.srv.stop()
	}
	vC11Replicated(out, stats)
	out.emit(vM{"k": "stat", "dist": stats})
}

// vC11Replicated: the cursors partition with a second, phantom replica (partdrv_test.go).
//
//	(1) SetCursor must not report success before the in-sync replica has the record;
//	(2) after the leadership went to the other replica, which stored a newer cursor, and came back,
//	    FetchCursor must not answer from what this server cached in its earlier term.
func vC11Replicated(out *vOut, stats map[string]int) {
	srv := vStartServer("a", func(cfg *Config) {
		vPartConfig(1)(cfg)
		cfg.Clustering.ReplicaMaxIdleWait = 4 * time.Second
		cfg.Clustering.ReplicaMaxLeaderTimeout = time.Hour
	})
	defer srv.stop()
	v, err := vNewPart(srv, cursorsStream, []string{"a", "b"}, func(st *proto.Stream) {
		st.Subject = srv.s.cursors.getCursorStreamSubject()
		st.Partitions[0].Subject = st.Subject
		st.Config = &proto.StreamConfig{CompactEnabled: &proto.NullableBool{Value: true}}
	})
	if err != nil {
		out.emit(vM{"k": "violation", "sig": "replicated-setup", "what": err.Error(), "case": vM{"k": "curepl"}})
		return
	}
	defer v.close()
	b := vNewSimLeader(v, "b")
	defer b.close()
	desc := vM{"k": "curepl"}
	set := func(off int64, timeout time.Duration) error {
		ctx, cancel := context.WithTimeout(context.Background(), timeout)
		defer cancel()
		_, err := srv.api.SetCursor(ctx, &client.SetCursorRequest{Stream: "foo", Partition: 0, CursorId: "cur", Offset: off})
		return err
	}
	fetch := func() (int64, error) {
		ctx, cancel := context.WithTimeout(context.Background(), 5*time.Second)
		defer cancel()
		resp, err := srv.api.FetchCursor(ctx, &client.FetchCursorRequest{Stream: "foo", Partition: 0, CursorId: "cur"})
		if err != nil {
			return 0, err
		}
		return resp.Offset, nil
	}
	// (1) the follower does not report: the ALL-policy publish behind SetCursor cannot be acknowledged
	if err := set(5, 1500*time.Millisecond); err == nil {
		out.emit(vM{"k": "violation", "sig": "cursor-stored-without-isr", "case": desc,
			"what": "SetCursor reported success while the other in-sync replica of the cursors partition had not received the record (newest offset on the leader " + fmt.Sprint(v.p.log.NewestOffset()) + ", follower reported nothing)"})
	}
	stats["replicated/set-without-follower"]++
	// the follower catches up: the record (stored by the attempt above) commits; store 5 for good
	stopAuto := make(chan struct{})
	go func() {
		for {
			select {
			case <-stopAuto:
				return
			case <-time.After(5 * time.Millisecond):
				v.follower("b", v.p.log.NewestOffset())
			}
		}
	}()
	if err := set(5, 5*time.Second); err != nil {
		out.emit(vM{"k": "violation", "sig": "replicated-set-failed", "what": "SetCursor with a reporting follower failed: " + err.Error(), "case": desc})
		close(stopAuto)
		return
	}
	if got, err := fetch(); err != nil || got != 5 {
		out.emit(vM{"k": "violation", "sig": "fetch-not-last-set", "what": fmt.Sprintf("FetchCursor after SetCursor(5) answered %d %v", got, err), "case": desc})
	}
	close(stopAuto)
	time.Sleep(20 * time.Millisecond)
	// (2) b takes over with a's log plus a newer cursor record, a replicates it, a leads again
	_, e1 := v.p.GetLeader()
	for _, m := range vLogDump(v.p) {
		_ = m
	}
	rd, _ := v.p.log.NewReader(0, true)
	hb := make([]byte, 28)
	for {
		ctx, cancel := context.WithCancel(context.Background())
		cancel()
		msg, _, _, ep, err := rd.ReadMessage(ctx, hb)
		if err != nil {
			break
		}
		b.appendKV(ep, append([]byte{}, msg.Key()...), append([]byte{}, msg.Value()...))
	}
	_ = e1
	b.gated = true
	b.hw = b.log.NewestOffset()
	e2, err := b.lead()
	if err != nil {
		out.emit(vM{"k": "violation", "sig": "replicated-setup", "what": err.Error(), "case": desc})
		return
	}
	cur := &proto.Cursor{Stream: "foo", Partition: 0, CursorId: "cur", Offset: 10}
	val, _ := cur.Marshal()
	b.appendKV(e2, srv.s.cursors.getCursorKey("cur", "foo", 0), val)
	b.mu.Lock()
	b.hw = b.log.NewestOffset()
	b.budget = 10
	b.mu.Unlock()
	b.wakeFollower()
	select {
	case <-b.served:
	case <-time.After(8 * time.Second):
	}
	time.Sleep(100 * time.Millisecond)
	if _, err := b.handBack(); err != nil {
		out.emit(vM{"k": "violation", "sig": "replicated-setup", "what": err.Error(), "case": desc})
		return
	}
	go func() {
		for i := 0; i < 400; i++ {
			v.follower("b", v.p.log.NewestOffset())
			time.Sleep(5 * time.Millisecond)
		}
	}()
	if got, err := fetch(); err != nil || got != 10 {
		out.emit(vM{"k": "violation", "sig": "stale-cursor-after-leader-change", "case": desc,
			"what": fmt.Sprintf("this server cached cursor 5 while leading; the other replica led, stored cursor 10 (replicated here), and this server leads again: FetchCursor answers %d %v", got, err)})
	}
	stats["replicated/leader-change"]++
	out.emit(desc)
}

// vC11Concurrent: one writer per key storing increasing offsets, readers fetching the same keys,
// a goroutine evicting and purging the cache.  A fetch that began after Set(k, a) returned and
// ended before Set(k, b) was called must return a value between a and b; once everything has
// stopped, every key must read as its last stored value, with and without the cache.
func vC11Concurrent(c *vC11Case, r *vRand, out *vOut, stats map[string]int) {
	rounds := vEnvInt("VERIF_ROUNDS", 4)
	c.srv.s.cursors.disableCache = false
	cache, _ := lru.New(cursorCacheSize)
	c.srv.s.cursors.cache = cache
	for round := 0; round < rounds; round++ {
		c.prefix = fmt.Sprintf("r%d", round)
		nk := 2 + r.intn(3)
		sets := 30 + r.intn(30)
		completed := make([]int64, nk)
		started := make([]int64, nk)
		for i := range completed {
			completed[i], started[i] = -1, -1
		}
		var wg, rg sync.WaitGroup
		var bad atomic.Value
		stop := make(chan struct{})
		for k := 0; k < nk; k++ {
			k := k
			wg.Add(1)
			go func() {
				defer wg.Done()
				id, st, p := c.ident(k)
				for v := int64(1); v <= int64(sets); v++ {
					atomic.StoreInt64(&started[k], v)
					ctx, cancel := context.WithTimeout(context.Background(), 10*time.Second)
					_, err := c.srv.api.SetCursor(ctx, &client.SetCursorRequest{Stream: st, Partition: p, CursorId: id, Offset: v})
					cancel()
					if err != nil {
						return // indeterminate: completed stays behind, started is ahead
					}
					atomic.StoreInt64(&completed[k], v)
				}
			}()
			for rd := 0; rd < 2; rd++ {
				rg.Add(1)
				go func() {
					defer rg.Done()
					id, st, p := c.ident(k)
					for {
						select {
						case <-stop:
							return
						default:
						}
						lo := atomic.LoadInt64(&completed[k])
						ctx, cancel := context.WithTimeout(context.Background(), 10*time.Second)
						resp, err := c.srv.api.FetchCursor(ctx, &client.FetchCursorRequest{Stream: st, Partition: p, CursorId: id})
						cancel()
						hi := atomic.LoadInt64(&started[k])
						if err != nil {
							continue
						}
						if resp.Offset < lo || resp.Offset > hi {
							bad.Store(fmt.Sprintf("round %d key %d: FetchCursor returned %d although Set(%d) had already succeeded and Set(%d) was the last one started",
								round, k, resp.Offset, lo, hi))
						}
					}
				}()
			}
		}
		rg.Add(1)
		go func() {
			defer rg.Done()
			pr := vNewRand(uint64(round) + 77)
			for {
				select {
				case <-stop:
					return
				default:
				}
				k := pr.intn(nk)
				id, st, p := c.ident(k)
				c.srv.s.cursors.cache.Remove(string(c.srv.s.cursors.getCursorKey(id, st, p)))
				time.Sleep(time.Duration(50+pr.intn(300)) * time.Microsecond)
			}
		}()
		wg.Wait()
		close(stop)
		rg.Wait()
		stats["conc/rounds"]++
		desc := vM{"k": "conc", "round": round, "keys": nk, "sets": sets}
		if b := bad.Load(); b != nil {
			out.emit(vM{"k": "violation", "sig": "concurrent-stale-read", "what": b.(string), "case": desc})
		}
		// quiescent: every key reads as its last successfully stored value (cache as it is, then scanned)
		for pass := 0; pass < 2; pass++ {
			for k := 0; k < nk; k++ {
				if completed[k] != started[k] {
					continue
				}
				got, err := c.fetch(k)
				if err == nil && got != completed[k] {
					how := "from whatever the cache holds"
					if pass == 1 {
						how = "after the cache was purged"
					}
					out.emit(vM{"k": "violation", "sig": "stale-after-quiesce", "case": desc,
						"what": fmt.Sprintf("round %d key %d: all SetCursor calls returned, the last stored %d, FetchCursor answers %d %s", round, k, completed[k], got, how)})
				}
			}
			c.srv.s.cursors.cache.Purge()
		}
		out.emit(desc)
	}
}
