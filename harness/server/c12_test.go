package server

// C12 driver: consumer-group operation sequences on directly constructed consumerGroup values.

import (
	"fmt"
	"sort"
	"testing"
	"time"

	"github.com/liftbridge-io/liftbridge/server/logger"
	proto "github.com/liftbridge-io/liftbridge/server/protocol"
)

func vC12Cons(i int) string   { return fmt.Sprintf("c%02d", i) }
func vC12Stream(i int) string { return fmt.Sprintf("s%02d", i) }

type vC12Group struct {
	g     *consumerGroup
	parts map[string]int32
}

func vC12New(parts map[string]int32) *vC12Group {
	lg := logger.NewLogger(0)
	lg.Silent(true)
	vg := &vC12Group{parts: parts}
	vg.g = newConsumerGroup("this-server", time.Hour, &proto.ConsumerGroup{Id: "grp", Coordinator: "other-server", Epoch: 0},
		false, lg, func(string, string) error { return nil },
		func(stream string) int32 { return vg.parts[stream] })
	return vg
}

// table returns every (consumer, stream, partitions) row, sorted.
func (vg *vC12Group) table() ([][]interface{}, []int) {
	vg.g.mu.RLock()
	defer vg.g.mu.RUnlock()
	var rows [][]interface{}
	var members []int
	for id, m := range vg.g.members {
		var ci int
		fmt.Sscanf(id, "c%d", &ci)
		members = append(members, ci)
		for stream, ps := range m.assignments {
			var si int
			fmt.Sscanf(stream, "s%d", &si)
			cp := make([]int32, len(ps))
			copy(cp, ps)
			rows = append(rows, []interface{}{ci, si, cp})
		}
	}
	sort.Ints(members)
	sort.Slice(rows, func(i, j int) bool {
		if rows[i][0].(int) != rows[j][0].(int) {
			return rows[i][0].(int) < rows[j][0].(int)
		}
		return rows[i][1].(int) < rows[j][1].(int)
	})
	return rows, members
}

// oracle checks the property's own words on the current state.
func (vg *vC12Group) oracle() string {
	vg.g.mu.RLock()
	defer vg.g.mu.RUnlock()
	subs := map[string][]string{}
	allStreams := map[string]bool{}
	for id, m := range vg.g.members {
		for s := range m.streams {
			subs[s] = append(subs[s], id)
			allStreams[s] = true
		}
		total := 0
		for s, ps := range m.assignments {
			if _, ok := m.streams[s]; !ok {
				return fmt.Sprintf("consumer %s holds partitions %v of stream %s which it does not subscribe to", id, ps, s)
			}
			total += len(ps)
		}
		if total != m.assignedCount {
			return fmt.Sprintf("consumer %s: assignedCount %d but %d partitions assigned", id, m.assignedCount, total)
		}
	}
	for s, ids := range subs {
		owner := map[int32][]string{}
		for _, id := range ids {
			for _, p := range vg.g.members[id].assignments[s] {
				owner[p] = append(owner[p], id)
			}
		}
		n := vg.parts[s]
		for p := int32(0); p < n; p++ {
			if len(owner[p]) != 1 {
				return fmt.Sprintf("partition %d of stream %s (subscribers %v) has owners %v", p, s, ids, owner[p])
			}
		}
		for p := range owner {
			if p < 0 || p >= n {
				return fmt.Sprintf("stream %s has %d partitions but partition %d is assigned", s, n, p)
			}
		}
	}
	if len(allStreams) == 1 {
		lo, hi := 1<<30, -1
		for _, m := range vg.g.members {
			if len(m.streams) == 0 {
				continue
			}
			if m.assignedCount < lo {
				lo = m.assignedCount
			}
			if m.assignedCount > hi {
				hi = m.assignedCount
			}
		}
		if hi-lo > 1 {
			return fmt.Sprintf("single-stream group: partition counts range from %d to %d", lo, hi)
		}
	}
	return ""
}

func vC12Apply(vg *vC12Group, op vM) int {
	var err error
	switch op["op"] {
	case "join":
		var ss []string
		for _, s := range op["ss"].([]int) {
			ss = append(ss, vC12Stream(s))
		}
		err = vg.g.AddMember(vC12Cons(op["c"].(int)), ss, uint64(op["e"].(int)))
	case "leave":
		_, err = vg.g.RemoveMember(vC12Cons(op["c"].(int)), uint64(op["e"].(int)))
	case "sdel":
		err = vg.g.StreamDeleted(vC12Stream(op["s"].(int)), uint64(op["e"].(int)))
	}
	if err == nil {
		return 0
	}
	if err == ErrConsumerNotMember {
		return 2
	}
	return 1
}

type vC12Case struct {
	a, b  *vC12Group
	rec   []vM
	viol  string
	pj      [][]int
	stats   map[string]int
	lastTbl string
}

func vC12NewCase(partsN map[int]int, stats map[string]int) *vC12Case {
	parts := map[string]int32{}
	var pj [][]int
	var keys []int
	for s := range partsN {
		keys = append(keys, s)
	}
	sort.Ints(keys)
	for _, s := range keys {
		parts[vC12Stream(s)] = int32(partsN[s])
		pj = append(pj, []int{s, partsN[s]})
	}
	return &vC12Case{a: vC12New(parts), b: vC12New(parts), pj: pj, stats: stats}
}

// step applies op to both groups, records the observation, runs the oracle; returns the result code.
func (c *vC12Case) step(op vM) int {
	var res, res2 int
	p := vCatch(func() { res = vC12Apply(c.a, op); res2 = vC12Apply(c.b, op) })
	o := vM{"res": res}
	for k, v := range op {
		o[k] = v
	}
	c.rec = append(c.rec, o)
	c.stats[fmt.Sprintf("%s/%d", op["op"], res)]++
	if p != "" {
		c.viol = "group operation panicked: " + p
		return res
	}
	ta, ma := c.a.table()
	tb, _ := c.b.table()
	if res != 0 && c.lastTbl != "" && fmt.Sprint(ta, c.a.g.epoch) != c.lastTbl {
		c.viol = fmt.Sprintf("%v was refused (code %d) and changed the group all the same: %s -> %v", op, res, c.lastTbl, fmt.Sprint(ta, c.a.g.epoch))
	}
	c.lastTbl = fmt.Sprint(ta, c.a.g.epoch)
	c.rec = append(c.rec, vM{"op": "obs", "epoch": c.a.g.epoch, "members": ma, "tbl": ta})
	if res != res2 || fmt.Sprint(ta) != fmt.Sprint(tb) {
		c.viol = fmt.Sprintf("two groups that applied the same operations differ: %v vs %v", ta, tb)
	} else if v := c.a.oracle(); v != "" {
		c.viol = v
	}
	return res
}

func (c *vC12Case) finish(out *vOut, id int) {
	cj := vM{"k": "grp", "id": id, "parts": c.pj, "ops": c.rec}
	if c.viol != "" {
		out.emit(vM{"k": "violation", "sig": "assignment", "what": c.viol, "case": cj})
	}
	out.emit(cj)
}

func TestVerifC12(t *testing.T) {
	out := vOpenOut()
	defer out.close()
	stats := map[string]int{}
	r := vNewRand(vSeed() + 12)
	n := vEnvInt("VERIF_N", 400)
	for i := 0; i < n; i++ {
		nstreams := 1 + r.pick(3, 4, 3, 1)
		partsN := map[int]int{}
		for s := 1; s <= nstreams; s++ {
			partsN[s] = []int{0, 1, 2, 3, 4, 5, 7}[r.pick(1, 3, 4, 4, 3, 2, 1)]
		}
		ncons := 1 + r.intn(5)
		c := vC12NewCase(partsN, stats)
		epoch := 1
		nops := 3 + r.intn(14)
		for j := 0; j < nops && c.viol == ""; j++ {
			e := epoch
			if r.intn(8) == 0 && epoch > 2 {
				e = epoch - 1 - r.intn(2) // usually stale: must be refused
			}
			switch r.pick(6, 4, 1) {
			case 0:
				cn := 1 + r.intn(ncons)
				if c.a.g.IsMember(vC12Cons(cn)) {
					continue // the metadata layer refuses a second join
				}
				var ss []int
				for s := 1; s <= nstreams; s++ {
					if r.intn(2) == 0 {
						ss = append(ss, s)
					}
				}
				if len(ss) == 0 {
					ss = []int{1 + r.intn(nstreams)}
				}
				if r.intn(6) == 0 {
					ss = append(ss, ss[0]) // duplicate stream name in the request
				}
				r2 := r.intn(len(ss))
				ss[0], ss[r2] = ss[r2], ss[0]
				c.step(vM{"op": "join", "c": cn, "ss": ss, "e": e})
			case 1:
				c.step(vM{"op": "leave", "c": 1 + r.intn(ncons), "e": e})
			default:
				sd := 1 + r.intn(nstreams)
				if c.step(vM{"op": "sdel", "s": sd, "e": e}) == 0 && c.viol == "" && r.intn(2) == 0 {
					// the stream is created again, with another number of partitions
					n := int32([]int{1, 2, 3, 4, 5, 7}[r.intn(6)])
					c.a.parts[vC12Stream(sd)], c.b.parts[vC12Stream(sd)] = n, n
					c.rec = append(c.rec, vM{"op": "parts", "s": sd, "n": int(n)})
					c.stats["stream-recreated"]++
				}
			}
			if int(c.a.g.epoch) >= epoch {
				epoch = int(c.a.g.epoch) + 1 + r.intn(2)
			}
		}
		c.finish(out, i)
	}
	out.emit(vM{"k": "stat", "dist": stats})
}
