package server

// C13 driver: group subscribes, closes and loop exits on a real partition of a single-node server.

import (
	"context"
	"fmt"
	"testing"
	"time"

	client "github.com/liftbridge-io/liftbridge-api/v2/go"
)

type vC13Sub struct {
	sub    *subscription
	cancel context.CancelFunc
	cons   int
	epoch  int
	closed bool // closed by the driver (EClose)
	exited bool // loop made to return by the driver (EExit)
}

func vC13SubscriberCount(p *partition) int64 {
	p.mu.RLock()
	defer p.mu.RUnlock()
	return p.subscriberCount
}

func vC13IsClosed(s *subscription) bool {
	select {
	case <-s.Closed():
		return true
	default:
		return false
	}
}

type vC13Case struct {
	p       *partition
	base    int64
	running int
	subs    []*vC13Sub
	rec     []vM
	viol    string
	group   string
}

func (c *vC13Case) observe() {
	m := c.p.GetGroupConsumer(c.group)
	active := 0
	for _, s := range c.subs {
		if !vC13IsClosed(s.sub) && !s.exited {
			active++
		}
	}
	o := vM{"op": "slot", "present": m != nil, "id": 0, "c": 0, "e": 0, "nactive": active}
	if m != nil {
		id := -1
		for i, s := range c.subs {
			if s.sub == m.sub {
				id = i
			}
		}
		var ci int
		fmt.Sscanf(m.consumerID, "c%d", &ci)
		o["id"], o["c"], o["e"] = id, ci, m.groupEpoch
		if id < 0 {
			c.viol = "the slot holds a subscription the driver never obtained"
		}
	}
	c.rec = append(c.rec, o)
	if active > 1 && c.viol == "" {
		c.viol = fmt.Sprintf("%d subscriptions of group %s are active on the partition at once", active, c.group)
	}
}

func (c *vC13Case) doSub(cons, epoch int) {
	ctx, cancel := context.WithCancel(context.Background())
	before := c.p.GetGroupConsumer(c.group)
	sub, st := c.p.Subscribe(ctx, &client.SubscribeRequest{
		Stream: c.p.Stream, Partition: c.p.Id, StartPosition: client.StartPosition_NEW_ONLY,
		Consumer: &client.Consumer{GroupId: c.group, ConsumerId: fmt.Sprintf("c%d", cons), GroupEpoch: uint64(epoch)},
	})
	acc := st == nil
	c.rec = append(c.rec, vM{"op": "sub", "c": cons, "e": epoch, "acc": acc})
	if !acc {
		cancel()
		after := c.p.GetGroupConsumer(c.group)
		if after != before {
			c.viol = "a refused subscribe changed the group's subscriber"
		}
		if before == nil || before.groupEpoch <= uint64(epoch) {
			c.viol = fmt.Sprintf("subscribe with epoch %d refused although the current subscriber is not newer: %v", epoch, st.Message())
		} else if vC13IsClosed(before.sub) {
			// closed by the driver earlier is fine; closed by this call is not
		}
		return
	}
	if before != nil && before.groupEpoch > uint64(epoch) {
		c.viol = fmt.Sprintf("subscribe with older epoch %d accepted over epoch %d", epoch, before.groupEpoch)
	}
	if before != nil && !vC13IsClosed(before.sub) {
		c.viol = "the replaced subscriber was not cancelled"
	}
	c.subs = append(c.subs, &vC13Sub{sub: sub, cancel: cancel, cons: cons, epoch: epoch})
	c.running++
	c.waitCount() // the loop goroutine registers itself asynchronously
}

func (c *vC13Case) waitCount() bool {
	deadline := time.Now().Add(5 * time.Second)
	for vC13SubscriberCount(c.p) != c.base+int64(c.running) && time.Now().Before(deadline) {
		time.Sleep(100 * time.Microsecond)
	}
	return vC13SubscriberCount(c.p) == c.base+int64(c.running)
}

func (c *vC13Case) doClose(i int) {
	c.subs[i].sub.Close()
	c.subs[i].closed = true
	c.rec = append(c.rec, vM{"op": "close", "i": i})
}

func (c *vC13Case) doExit(i int) {
	c.subs[i].cancel()
	// the loop reports the end on its error channel unless the subscription is closed; the API
	// handler receives it there
	select {
	case <-c.subs[i].sub.Errors():
	case <-c.subs[i].sub.Closed():
	case <-time.After(5 * time.Second):
	}
	c.running--
	if !c.waitCount() {
		c.viol = "a cancelled subscription loop did not return"
	}
	c.subs[i].exited = true
	c.rec = append(c.rec, vM{"op": "exit", "i": i})
}

func TestVerifC13(t *testing.T) {
	out := vOpenOut()
	defer out.close()
	stats := map[string]int{}
	srv := vStartServer("c13", nil)
	defer srv.stop()
	if err := srv.createStream("s13", 1, nil); err != nil {
		t.Fatal(err)
	}
	p := srv.waitLeader("s13", 0)
	r := vNewRand(vSeed() + 13)
	n := vEnvInt("VERIF_N", 150)
	run := func(id int, script []vM) {
		c := &vC13Case{p: p, group: fmt.Sprintf("g%d", id), base: vC13SubscriberCount(p)}
		for _, ev := range script {
			if c.viol != "" {
				break
			}
			switch ev["op"] {
			case "sub":
				c.doSub(ev["c"].(int), ev["e"].(int))
			case "close":
				if i := ev["i"].(int); i < len(c.subs) && !c.subs[i].closed {
					c.doClose(i)
				}
			case "exit":
				if i := ev["i"].(int); i < len(c.subs) && !c.subs[i].exited {
					c.doExit(i)
				}
			}
			c.observe()
		}
		for i, s := range c.subs {
			if !s.exited {
				c.doExit(i)
			}
		}
		cj := vM{"k": "slot", "id": id, "ops": c.rec}
		if c.viol != "" {
			out.emit(vM{"k": "violation", "sig": "two-active", "what": c.viol, "case": cj})
		}
		out.emit(cj)
	}
	// corpus: same consumer id re-subscribes, its first loop ends, an older-epoch member arrives
	run(0, []vM{{"op": "sub", "c": 1, "e": 5}, {"op": "sub", "c": 1, "e": 5}, {"op": "exit", "i": 0}, {"op": "sub", "c": 2, "e": 1}})
	for id := 1; id <= n; id++ {
		var script []vM
		nsub := 0
		epoch := 1 + r.intn(3)
		for j := 0; j < 4+r.intn(10); j++ {
			switch r.pick(6, 2, 4) {
			case 0:
				e := epoch
				switch r.pick(4, 3, 2) {
				case 1:
					e = epoch + 1 + r.intn(2)
					epoch = e
				case 2:
					e = epoch - 1 - r.intn(2)
					if e < 0 {
						e = 0
					}
				}
				script = append(script, vM{"op": "sub", "c": 1 + r.intn(3), "e": e})
				nsub++
				stats["sub"]++
			case 1:
				if nsub > 0 {
					script = append(script, vM{"op": "close", "i": r.intn(nsub)})
					stats["close"]++
				}
			default:
				if nsub > 0 {
					script = append(script, vM{"op": "exit", "i": r.intn(nsub)})
					stats["exit"]++
				}
			}
		}
		run(id, script)
	}
	// ---- concurrent subscribes: whatever the interleaving inside Subscribe, at most one stays active
	rounds := vEnvInt("VERIF_N", 150) / 3
	for round := 0; round < rounds; round++ {
		group := fmt.Sprintf("race%d", round)
		k := 3 + r.intn(5)
		type res struct {
			sub    *subscription
			cancel context.CancelFunc
			cons   int
			epoch  int
		}
		results := make([]res, k)
		start := make(chan struct{})
		done := make(chan int, k)
		base := vC13SubscriberCount(p)
		for i := 0; i < k; i++ {
			i := i
			ep := 5 + r.intn(2)
			go func() {
				ctx, cancel := context.WithCancel(context.Background())
				<-start
				sub, st := p.Subscribe(ctx, &client.SubscribeRequest{Stream: p.Stream, Partition: p.Id, StartPosition: client.StartPosition_NEW_ONLY,
					Consumer: &client.Consumer{GroupId: group, ConsumerId: fmt.Sprintf("c%d", i), GroupEpoch: uint64(ep)}})
				if st != nil {
					cancel()
					results[i] = res{cons: i, epoch: ep}
				} else {
					results[i] = res{sub: sub, cancel: cancel, cons: i, epoch: ep}
				}
				done <- i
			}()
		}
		close(start)
		for i := 0; i < k; i++ {
			<-done
		}
		active, accepted := 0, 0
		var desc []string
		for _, x := range results {
			if x.sub != nil {
				accepted++
				closed := vC13IsClosed(x.sub)
				if !closed {
					active++
				}
				desc = append(desc, fmt.Sprintf("c%d/e%d closed=%v", x.cons, x.epoch, closed))
			}
		}
		stats["race/rounds"]++
		stats[fmt.Sprintf("race/accepted=%d", accepted)]++
		if active > 1 {
			out.emit(vM{"k": "violation", "sig": "two-active-concurrent", "what": fmt.Sprintf("%d concurrent group subscribes: %d subscriptions left active: %v", k, active, desc),
				"case": vM{"k": "race", "k_subscribers": k}})
		}
		// clean up: end every loop and wait for them
		for _, x := range results {
			if x.sub != nil {
				x.cancel()
				select {
				case <-x.sub.Errors():
				case <-x.sub.Closed():
				case <-time.After(2 * time.Second):
				}
			}
		}
		deadline := time.Now().Add(3 * time.Second)
		for vC13SubscriberCount(p) != base && time.Now().Before(deadline) {
			time.Sleep(200 * time.Microsecond)
		}
	}
	// ---- the slot when a group subscribe fails, and when a bounded one is cancelled at its end ----
	{
		// (a) a Subscribe that returns an error leaves the group's slot as it was
		if err := srv.createStream("s13e", 1, nil); err != nil {
			t.Fatal(err)
		}
		pe := srv.waitLeader("s13e", 0)
		fails := []*client.SubscribeRequest{
			{Stream: "s13e", Partition: 0, Reverse: true, StartPosition: client.StartPosition_LATEST}, // nothing committed: no reader
			{Stream: "s13e", Partition: 0, StartPosition: client.StartPosition_OFFSET, StartOffset: 5, StopPosition: client.StopPosition_STOP_OFFSET, StopOffset: 2},
		}
		for k, req := range fails {
			req.Consumer = &client.Consumer{GroupId: "gfail", ConsumerId: "c1", GroupEpoch: 4}
			before := pe.GetGroupConsumer("gfail")
			ctx, cancel := context.WithCancel(context.Background())
			sub, st := pe.Subscribe(ctx, req)
			if st == nil {
				cancel()
				select {
				case <-sub.Errors():
				case <-time.After(2 * time.Second):
				}
				stats[fmt.Sprintf("probe/failing-subscribe-%d-accepted", k)]++
				deadline := time.Now().Add(2 * time.Second)
				for pe.GetGroupConsumer("gfail") != nil && time.Now().Before(deadline) {
					time.Sleep(time.Millisecond)
				}
				continue
			}
			cancel()
			stats["probe/failed-subscribe"]++
			if after := pe.GetGroupConsumer("gfail"); after != before {
				out.emit(vM{"k": "violation", "sig": "failed-subscribe-holds-slot", "what": fmt.Sprintf("group subscribe (reverse=%v start=%v stop=%v) failed with %q and still took the group's slot on the partition: later members are refused by a subscription that does not exist", req.Reverse, req.StartPosition, req.StopPosition, st.Message()),
					"case": vM{"k": "probe", "probe": "failed-subscribe", "variant": k}})
				break
			}
		}
		// (b) a bounded group subscription that is cancelled right after its last message frees the slot
		for i := 0; i < 3; i++ {
			srv.api.Publish(context.Background(), &client.PublishRequest{Stream: "s13e", Partition: 0, Value: []byte(fmt.Sprintf("m%d", i)), AckPolicy: client.AckPolicy_LEADER})
		}
		for round := 0; round < 4; round++ {
			ctx, cancel := context.WithCancel(context.Background())
			sub, st := pe.Subscribe(ctx, &client.SubscribeRequest{Stream: "s13e", Partition: 0, StartPosition: client.StartPosition_EARLIEST,
				StopPosition: client.StopPosition_STOP_OFFSET, StopOffset: 2,
				Consumer: &client.Consumer{GroupId: "gstop", ConsumerId: "c1", GroupEpoch: uint64(10 + round)}})
			if st != nil {
				out.emit(vM{"k": "violation", "sig": "bounded-subscribe-refused", "what": "bounded group subscribe refused: " + st.Message(), "case": vM{"k": "probe", "probe": "bounded", "round": round}})
				cancel()
				break
			}
			got := 0
			for got < 3 {
				select {
				case <-sub.Messages():
					got++
				case <-time.After(3 * time.Second):
					got = 99
				}
			}
			cancel() // the client goes away without reading the final status: the API handler returns
			sub.Close() // ... and closes the subscription on its way out, as apiServer.Subscribe does
			stats["probe/bounded-cancelled-at-end"]++
			deadline := time.Now().Add(3 * time.Second)
			for pe.GetGroupConsumer("gstop") != nil && time.Now().Before(deadline) {
				time.Sleep(time.Millisecond)
			}
			if pe.GetGroupConsumer("gstop") != nil {
				out.emit(vM{"k": "violation", "sig": "slot-never-freed", "what": "a group subscription with a stop offset delivered its last message, the client went away without reading the final status (context cancelled, subscription closed), and 3 s later the subscription still holds the group's slot on the partition",
					"case": vM{"k": "probe", "probe": "bounded", "round": round}})
				break
			}
		}
	}
	out.emit(vM{"k": "stat", "dist": stats})
}
