package server

// C14 driver (publish path): natsToProtoMessage on generated NATS payloads.

import (
	"bytes"
	"testing"

	client "github.com/liftbridge-io/liftbridge-api/v2/go"
	"github.com/nats-io/nats.go"

	proto "github.com/liftbridge-io/liftbridge/server/protocol"
)

func vC14NatsRun(out *vOut, data []byte, class string, dist map[string]int) {
	pbOK := false
	vCatch(func() {
		_, err := proto.UnmarshalPublish(data)
		pbOK = err == nil
	})
	kind := 0
	p := vCatch(func() {
		m := natsToProtoMessage(&nats.Msg{Subject: "s", Reply: "r", Data: data}, 7)
		if pbOK {
			dec, _ := proto.UnmarshalPublish(data)
			if !bytes.Equal(m.Value, dec.Value) || !bytes.Equal(m.Key, dec.Key) || m.AckInbox != dec.AckInbox ||
				m.CorrelationID != dec.CorrelationId || m.AckPolicy != dec.AckPolicy {
				out.emit(vM{"k": "violation", "what": "natsToProtoMessage: decoded envelope fields differ from the envelope", "data": vHex(data), "case_kind": "nats"})
			}
			kind = 0
		} else {
			kind = 1
			if !bytes.Equal(m.Value, data) || m.Key != nil || m.AckInbox != "" {
				out.emit(vM{"k": "violation", "what": "natsToProtoMessage: non-envelope payload not stored verbatim", "data": vHex(data), "case_kind": "nats"})
			}
		}
		if string(m.Headers["subject"]) != "s" || string(m.Headers["reply"]) != "r" || m.LeaderEpoch != 7 {
			out.emit(vM{"k": "violation", "what": "natsToProtoMessage: subject/reply/epoch not recorded", "data": vHex(data), "case_kind": "nats"})
		}
	})
	if p != "" {
		kind = 2
		out.emit(vM{"k": "violation", "what": "natsToProtoMessage panicked: " + p, "data": vHex(data), "case_kind": "nats"})
	}
	dist["nats-"+class+"/"+[]string{"envelope", "raw", "crash"}[kind]]++
	out.emit(vM{"k": "nats", "data": vHex(data), "pb_ok": pbOK, "kind": kind})
}

func TestVerifC14Nats(t *testing.T) {
	out := vOpenOut()
	defer out.close()
	dist := map[string]int{}
	if rp := vReplayLines(); rp != nil {
		for _, c := range rp {
			if c["k"] == "nats" {
				vC14NatsRun(out, vUnhex(c["data"].(string)), "replay", dist)
			}
		}
		return
	}
	r := vNewRand(vSeed() + 77)
	n := vEnvInt("VERIF_N", 2500) / 4
	magic := []byte{0xB9, 0x0E, 0x43, 0xB4}
	for _, hl := range []byte{255, 9, 8, 7, 0} {
		vC14NatsRun(out, append(append([]byte{}, magic...), 0, hl, 0, 0), "corpus", dist)
	}
	for i := 0; i < n; i++ {
		var data []byte
		class := ""
		switch r.pick(5, 3, 3, 3, 3) {
		case 0:
			m := &client.Message{Key: r.bytesN(r.intn(3)), Value: r.bytesN(r.intn(10)), AckInbox: "i", CorrelationId: "c",
				AckPolicy: client.AckPolicy(r.intn(3)), Offset: int64(r.intn(5))}
			data, _ = proto.MarshalPublish(m)
			class = "valid"
		case 1:
			data = r.bytesN(r.intn(30))
			class = "raw"
		case 2: // envelope header with arbitrary header length / flags / type
			data = append(append([]byte{}, magic...), 0, byte(r.intn(256)), byte(r.intn(3)), byte(r.intn(3)))
			data = append(data, r.bytesN(r.intn(12))...)
			class = "hdr-any"
		case 3: // valid header, garbage protobuf
			data = append(append([]byte{}, magic...), 0, 8, 0, 0)
			data = append(data, r.bytesN(r.intn(12))...)
			class = "garbage-pb"
		default: // another message type on the stream subject
			data, _ = proto.MarshalAck(&client.Ack{Offset: int64(r.intn(9)), Stream: "x"})
			class = "other-type"
		}
		vC14NatsRun(out, data, class, dist)
	}
	out.emit(vM{"k": "stat", "dist": dist})
}
