package server

// C14 driver (internal NATS handlers): every handler that decodes a NATS payload is called
// in-process, under recover, with generated payloads. A panic here is a process crash in
// production (NATS callbacks run on the client's goroutines).

import (
	"bytes"
	"encoding/binary"
	"fmt"
	"os"
	"path/filepath"
	"reflect"
	"strings"
	"testing"

	pb "github.com/golang/protobuf/proto"
	"github.com/nats-io/nats.go"

	"github.com/liftbridge-io/liftbridge/server/commitlog"
	proto "github.com/liftbridge-io/liftbridge/server/protocol"
)

func vC14ReplResp(epoch uint64, hw int64, msgSet []byte) []byte {
	buf := new(bytes.Buffer)
	proto.WriteReplicationResponseHeader(buf)
	binary.Write(buf, proto.Encoding, epoch)
	binary.Write(buf, proto.Encoding, hw)
	buf.Write(msgSet)
	return buf.Bytes()
}

func vC14Entry(offset int64, epoch uint64, size int32, body []byte) []byte {
	b := make([]byte, 28, 28+len(body))
	proto.Encoding.PutUint64(b[0:], uint64(offset))
	proto.Encoding.PutUint64(b[8:], uint64(5))
	proto.Encoding.PutUint64(b[16:], epoch)
	proto.Encoding.PutUint32(b[24:], uint32(size))
	return append(b, body...)
}

func TestVerifC14Handlers(t *testing.T) {
	out := vOpenOut()
	defer out.close()
	stats := map[string]int{}
	srv := vStartServer("c14h", nil)
	defer srv.stop()
	if err := srv.createStream("h14", 1, nil); err != nil {
		t.Fatal(err)
	}
	lp := srv.waitLeader("h14", 0)
	self := srv.s.config.Clustering.ServerID

	// a follower partition on a never-started server (no NATS needed): the receiving side of replication
	const fEpoch = uint64(3)
	fcfg := NewDefaultConfig()
	fcfg.Clustering.ServerID = "fa"
	fcfg.DataDir = filepath.Join(srv.dir, "follower")
	fcfg.LogSilent = true
	fs := New(fcfg)
	newFollower := func() *partition {
		fp, err := fs.newPartition(&proto.Partition{Subject: "foo", Stream: fmt.Sprintf("foo%d", stats["followers"]), Replicas: []string{"fa", "fb"},
			Leader: "fb", LeaderEpoch: fEpoch, Isr: []string{"fa", "fb"}}, false, nil)
		if err != nil {
			t.Fatal(err)
		}
		fp.isFollowing = true
		stats["followers"]++
		return fp
	}
	fp := newFollower()
	defer func() { fp.log.Close() }()

	// one real frame (header + message with its CRC), as the leader's log holds it
	var frameTmpl []byte
	{
		tl, err := commitlog.New(commitlog.Options{Path: filepath.Join(srv.dir, "frametmpl"), Name: "t", MaxSegmentBytes: 1 << 20})
		if err != nil {
			t.Fatal(err)
		}
		if _, err := tl.Append([]*commitlog.Message{{MagicByte: 1, Timestamp: 5, LeaderEpoch: fEpoch, Value: []byte("v"), Offset: -1}}); err != nil {
			t.Fatal(err)
		}
		tl.Close()
		frameTmpl, err = os.ReadFile(filepath.Join(srv.dir, "frametmpl", "00000000000000000000.log"))
		if err != nil || len(frameTmpl) <= 28 {
			t.Fatal("no frame template", err)
		}
	}

	broken := map[string]bool{}
	call := func(h string, data []byte) {
		if broken[h] {
			return // a handler that panicked may have left locks held; production would be dead already
		}
		stats[h]++
		// nats.go hands the payload over in a buffer of exactly its length: no spare capacity behind it
		exact := make([]byte, len(data))
		copy(exact, data)
		msg := &nats.Msg{Subject: "x", Reply: "", Data: exact}
		p := vCatch(func() {
			switch h {
			case "handleReplicationResponse":
				fp.handleReplicationResponse(msg)
			case "handleReplicationRequest":
				lp.handleReplicationRequest(msg)
			case "handleLeaderOffsetRequest":
				lp.handleLeaderOffsetRequest(msg)
			case "handlePropagatedRequest":
				srv.s.handlePropagatedRequest(msg)
			case "handleServerInfoRequest":
				srv.s.handleServerInfoRequest(msg)
			case "handlePartitionStatusRequest":
				srv.s.handlePartitionStatusRequest(msg)
			case "handlePartitionNotification":
				srv.s.handlePartitionNotification(msg)
			}
		})
		if p != "" {
			stats[h+"/panic"]++
			if len(p) > 160 {
				p = p[:160]
			}
			out.emit(vM{"k": "violation", "sig": "handler-panic:" + h, "what": h + " panicked: " + p, "case": vM{"k": "handler", "h": h, "data": vHex(data)}})
			if h != "handleReplicationResponse" {
				broken[h] = true
			}
			if h == "handleReplicationResponse" {
				// the log may be left half-written; continue on a fresh follower
				vCatch(func() { fp.log.Close() })
				fp = newFollower()
			}
		}
	}

	if rp := vReplayLines(); rp != nil {
		for _, c := range rp {
			if c["k"] == "handler" {
				call(c["h"].(string), vUnhex(c["data"].(string)))
			}
		}
		return
	}

	r := vNewRand(vSeed() + 1414)
	n := vEnvInt("VERIF_N", 2500) / 10
	handlers := []string{"handleReplicationRequest", "handleLeaderOffsetRequest", "handlePropagatedRequest",
		"handleServerInfoRequest", "handlePartitionStatusRequest", "handlePartitionNotification"}
	mk := func(m pb.Message, f func(pb.Message) ([]byte, error)) []byte {
		b, err := f(m)
		if err != nil {
			panic(err)
		}
		return b
	}
	ids := []string{"", self, "zz", "fa"}
	for i := 0; i < n; i++ {
		// well-formed requests with boundary field values
		call("handleReplicationRequest", mk(&proto.ReplicationRequest{ReplicaID: ids[r.intn(len(ids))], Offset: int64(r.intn(5)) - 1,
			LeaderEpoch: []uint64{0, lp.LeaderEpoch, 99}[r.intn(3)]}, func(m pb.Message) ([]byte, error) {
			return proto.MarshalReplicationRequest(m.(*proto.ReplicationRequest))
		}))
		call("handleLeaderOffsetRequest", mk(&proto.LeaderEpochOffsetRequest{LeaderEpoch: uint64(r.intn(4))}, func(m pb.Message) ([]byte, error) {
			return proto.MarshalLeaderEpochOffsetRequest(m.(*proto.LeaderEpochOffsetRequest))
		}))
		call("handleServerInfoRequest", mk(&proto.ServerInfoRequest{Id: ids[r.intn(len(ids))]}, func(m pb.Message) ([]byte, error) {
			return proto.MarshalServerInfoRequest(m.(*proto.ServerInfoRequest))
		}))
		call("handlePartitionStatusRequest", mk(&proto.PartitionStatusRequest{Stream: []string{"h14", "nope", ""}[r.intn(3)], Partition: int32(r.intn(3)) - 1}, func(m pb.Message) ([]byte, error) {
			return proto.MarshalPartitionStatusRequest(m.(*proto.PartitionStatusRequest))
		}))
		call("handlePartitionNotification", mk(&proto.PartitionNotification{Stream: []string{"h14", "nope", ""}[r.intn(3)], Partition: int32(r.intn(3)) - 1}, func(m pb.Message) ([]byte, error) {
			return proto.MarshalPartitionNotification(m.(*proto.PartitionNotification))
		}))
		// propagated requests whose operation body is missing (a peer of another version, or anybody on NATS)
		op := proto.Op(r.intn(14))
		call("handlePropagatedRequest", mk(&proto.PropagatedRequest{Op: op}, func(m pb.Message) ([]byte, error) {
			return proto.MarshalPropagatedRequest(m.(*proto.PropagatedRequest))
		}))
		// ... or that carry the body of ANOTHER operation (every *Op field is a candidate)
		{
			pr := &proto.PropagatedRequest{Op: proto.Op(r.intn(14))}
			rv := reflect.ValueOf(pr).Elem()
			var opFields []int
			for fi := 0; fi < rv.NumField(); fi++ {
				if f := rv.Type().Field(fi); strings.HasSuffix(f.Name, "Op") && f.Type.Kind() == reflect.Ptr && f.Type.Elem().Kind() == reflect.Struct {
					opFields = append(opFields, fi)
				}
			}
			if len(opFields) > 0 {
				fi := opFields[r.intn(len(opFields))]
				rv.Field(fi).Set(reflect.New(rv.Type().Field(fi).Type.Elem()))
				stats["propagated/foreign-body"]++
				call("handlePropagatedRequest", mk(pr, func(m pb.Message) ([]byte, error) {
					return proto.MarshalPropagatedRequest(m.(*proto.PropagatedRequest))
				}))
			}
		}
		// arbitrary / truncated bytes to every handler
		h := handlers[r.intn(len(handlers))]
		call(h, r.bytesN(r.intn(24)))
		valid := mk(&proto.ReplicationRequest{ReplicaID: "zz", Offset: 1}, func(m pb.Message) ([]byte, error) {
			return proto.MarshalReplicationRequest(m.(*proto.ReplicationRequest))
		})
		call(h, valid[:r.intn(len(valid)+1)])

		// replication responses: message data of every small length and inconsistent size fields
		next := fp.log.NewestOffset() + 1
		body := r.bytesN(r.intn(12))
		var ms []byte
		switch r.pick(3, 3, 2, 2, 2, 3) {
		case 5: // whole, intact entries (real frames with a good CRC) followed by a fragment shorter than a header
			for k := 0; k < 1+r.intn(3); k++ {
				f := append([]byte{}, frameTmpl...)
				proto.Encoding.PutUint64(f[0:], uint64(next+int64(k)))
				proto.Encoding.PutUint64(f[16:], fEpoch)
				ms = append(ms, f...)
			}
			ms = append(ms, vC14Entry(next+9, fEpoch, 3, nil)[:1+r.intn(27)]...)
			stats["replresp/entries-then-fragment"]++
		case 0: // shorter than or equal to one header
			ms = vC14Entry(next, fEpoch, int32(r.intn(9)), nil)[:r.intn(29)]
		case 1: // size field larger than the data
			ms = vC14Entry(next, fEpoch, int32(len(body)+1+r.intn(1000)), body)
		case 2: // size field smaller than the data (trailing bytes)
			ms = vC14Entry(next, fEpoch, int32(r.intn(len(body)+1)), body)
		case 3: // negative size
			ms = vC14Entry(next, fEpoch, -1-int32(r.intn(40)), body)
		default: // stale offset or other epoch: must be dropped
			ms = vC14Entry(next-1-int64(r.intn(3)), fEpoch, int32(len(body)), body)
		}
		ep := fEpoch
		if r.intn(6) == 0 {
			ep = fEpoch + 1
		}
		call("handleReplicationResponse", vC14ReplResp(ep, int64(r.intn(4))-1, ms))
	}
	out.emit(vM{"k": "stat", "dist": stats})
}
