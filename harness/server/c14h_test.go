package server

// C14 driver (internal NATS handlers): every handler that decodes a NATS payload is called
// in-process, under recover, with generated payloads. A panic here is a process crash in
// production (NATS callbacks run on the client's goroutines).

import (
	"bytes"
	"encoding/binary"
	"fmt"
	"path/filepath"
	"testing"

	pb "github.com/golang/protobuf/proto"
	"github.com/nats-io/nats.go"

	proto "github.com/liftbridge-io/liftbridge/server/protocol"
)

func vC14ReplResp(epoch uint64, hw int64, msgSet []byte) []byte {
	buf := new(bytes.Buffer)
	proto.WriteReplicationResponseHeader(buf)
	binary.Write(buf, proto.Encoding, epoch)
	binary.Write(buf, proto.Encoding, hw)
	buf.Write(msgSet)
	return buf.Bytes()
}

func vC14Entry(offset int64, epoch uint64, size int32, body []byte) []byte {
	b := make([]byte, 28, 28+len(body))
	proto.Encoding.PutUint64(b[0:], uint64(offset))
	proto.Encoding.PutUint64(b[8:], uint64(5))
	proto.Encoding.PutUint64(b[16:], epoch)
	proto.Encoding.PutUint32(b[24:], uint32(size))
	return append(b, body...)
}

func TestVerifC14Handlers(t *testing.T) {
	out := vOpenOut()
	defer out.close()
	stats := map[string]int{}
	srv := vStartServer("c14h", nil)
	defer srv.stop()
	if err := srv.createStream("h14", 1, nil); err != nil {
		t.Fatal(err)
	}
	lp := srv.waitLeader("h14", 0)
	self := srv.s.config.Clustering.ServerID

	// a follower partition on a never-started server (no NATS needed): the receiving side of replication
	const fEpoch = uint64(3)
	fcfg := NewDefaultConfig()
	fcfg.Clustering.ServerID = "fa"
	fcfg.DataDir = filepath.Join(srv.dir, "follower")
	fcfg.LogSilent = true
	fs := New(fcfg)
	newFollower := func() *partition {
		fp, err := fs.newPartition(&proto.Partition{Subject: "foo", Stream: fmt.Sprintf("foo%d", stats["followers"]), Replicas: []string{"fa", "fb"},
			Leader: "fb", LeaderEpoch: fEpoch, Isr: []string{"fa", "fb"}}, false, nil)
		if err != nil {
			t.Fatal(err)
		}
		fp.isFollowing = true
		stats["followers"]++
		return fp
	}
	fp := newFollower()
	defer func() { fp.log.Close() }()

	broken := map[string]bool{}
	call := func(h string, data []byte) {
		if broken[h] {
			return // a handler that panicked may have left locks held; production would be dead already
		}
		stats[h]++
		msg := &nats.Msg{Subject: "x", Reply: "", Data: data}
		p := vCatch(func() {
			switch h {
			case "handleReplicationResponse":
				fp.handleReplicationResponse(msg)
			case "handleReplicationRequest":
				lp.handleReplicationRequest(msg)
			case "handleLeaderOffsetRequest":
				lp.handleLeaderOffsetRequest(msg)
			case "handlePropagatedRequest":
				srv.s.handlePropagatedRequest(msg)
			case "handleServerInfoRequest":
				srv.s.handleServerInfoRequest(msg)
			case "handlePartitionStatusRequest":
				srv.s.handlePartitionStatusRequest(msg)
			case "handlePartitionNotification":
				srv.s.handlePartitionNotification(msg)
			}
		})
		if p != "" {
			stats[h+"/panic"]++
			if len(p) > 160 {
				p = p[:160]
			}
			out.emit(vM{"k": "violation", "sig": "handler-panic:" + h, "what": h + " panicked: " + p, "case": vM{"k": "handler", "h": h, "data": vHex(data)}})
			if h != "handleReplicationResponse" {
				broken[h] = true
			}
			if h == "handleReplicationResponse" {
				// the log may be left half-written; continue on a fresh follower
				vCatch(func() { fp.log.Close() })
				fp = newFollower()
			}
		}
	}

	if rp := vReplayLines(); rp != nil {
		for _, c := range rp {
			if c["k"] == "handler" {
				call(c["h"].(string), vUnhex(c["data"].(string)))
			}
		}
		return
	}

	r := vNewRand(vSeed() + 1414)
	n := vEnvInt("VERIF_N", 2500) / 10
	handlers := []string{"handleReplicationRequest", "handleLeaderOffsetRequest", "handlePropagatedRequest",
		"handleServerInfoRequest", "handlePartitionStatusRequest", "handlePartitionNotification"}
	mk := func(m pb.Message, f func(pb.Message) ([]byte, error)) []byte {
		b, err := f(m)
		if err != nil {
			panic(err)
		}
		return b
	}
	ids := []string{"", self, "zz", "fa"}
	for i := 0; i < n; i++ {
		// well-formed requests with boundary field values
		call("handleReplicationRequest", mk(&proto.ReplicationRequest{ReplicaID: ids[r.intn(len(ids))], Offset: int64(r.intn(5)) - 1,
			LeaderEpoch: []uint64{0, lp.LeaderEpoch, 99}[r.intn(3)]}, func(m pb.Message) ([]byte, error) {
			return proto.MarshalReplicationRequest(m.(*proto.ReplicationRequest))
		}))
		call("handleLeaderOffsetRequest", mk(&proto.LeaderEpochOffsetRequest{LeaderEpoch: uint64(r.intn(4))}, func(m pb.Message) ([]byte, error) {
			return proto.MarshalLeaderEpochOffsetRequest(m.(*proto.LeaderEpochOffsetRequest))
		}))
		call("handleServerInfoRequest", mk(&proto.ServerInfoRequest{Id: ids[r.intn(len(ids))]}, func(m pb.Message) ([]byte, error) {
			return proto.MarshalServerInfoRequest(m.(*proto.ServerInfoRequest))
		}))
		call("handlePartitionStatusRequest", mk(&proto.PartitionStatusRequest{Stream: []string{"h14", "nope", ""}[r.intn(3)], Partition: int32(r.intn(3)) - 1}, func(m pb.Message) ([]byte, error) {
			return proto.MarshalPartitionStatusRequest(m.(*proto.PartitionStatusRequest))
		}))
		call("handlePartitionNotification", mk(&proto.PartitionNotification{Stream: []string{"h14", "nope", ""}[r.intn(3)], Partition: int32(r.intn(3)) - 1}, func(m pb.Message) ([]byte, error) {
			return proto.MarshalPartitionNotification(m.(*proto.PartitionNotification))
		}))
		// propagated requests whose operation body is missing (a peer of another version, or anybody on NATS)
		op := proto.Op(r.intn(14))
		call("handlePropagatedRequest", mk(&proto.PropagatedRequest{Op: op}, func(m pb.Message) ([]byte, error) {
			return proto.MarshalPropagatedRequest(m.(*proto.PropagatedRequest))
		}))
		// arbitrary / truncated bytes to every handler
		h := handlers[r.intn(len(handlers))]
		call(h, r.bytesN(r.intn(24)))
		valid := mk(&proto.ReplicationRequest{ReplicaID: "zz", Offset: 1}, func(m pb.Message) ([]byte, error) {
			return proto.MarshalReplicationRequest(m.(*proto.ReplicationRequest))
		})
		call(h, valid[:r.intn(len(valid)+1)])

		// replication responses: message data of every small length and inconsistent size fields
		next := fp.log.NewestOffset() + 1
		body := r.bytesN(r.intn(12))
		var ms []byte
		switch r.pick(3, 3, 2, 2, 2) {
		case 0: // shorter than or equal to one header
			ms = vC14Entry(next, fEpoch, int32(r.intn(9)), nil)[:r.intn(29)]
		case 1: // size field larger than the data
			ms = vC14Entry(next, fEpoch, int32(len(body)+1+r.intn(1000)), body)
		case 2: // size field smaller than the data (trailing bytes)
			ms = vC14Entry(next, fEpoch, int32(r.intn(len(body)+1)), body)
		case 3: // negative size
			ms = vC14Entry(next, fEpoch, -1-int32(r.intn(40)), body)
		default: // stale offset or other epoch: must be dropped
			ms = vC14Entry(next-1-int64(r.intn(3)), fEpoch, int32(len(body)), body)
		}
		ep := fEpoch
		if r.intn(6) == 0 {
			ep = fEpoch + 1
		}
		call("handleReplicationResponse", vC14ReplResp(ep, int64(r.intn(4))-1, ms))
	}
	out.emit(vM{"k": "stat", "dist": stats})
}
