package server

// C15 driver: every client-API method is invoked in-process for a client WITHOUT the policy entry
// (authorisation switched on), and the state is inspected afterwards.

import (
	"context"
	"fmt"
	"io"
	"os"
	"path/filepath"
	"sync"
	"testing"
	"time"

	"github.com/casbin/casbin/v2"
	client "github.com/liftbridge-io/liftbridge-api/v2/go"
	"google.golang.org/grpc"
)

const vC15Model = `[request_definition]
r = sub, obj, act

[policy_definition]
p = sub, obj, act

[policy_effect]
e = some(where (p.eft == allow))

[matchers]
m = r.sub == p.sub && r.obj == p.obj && r.act == p.act
`

type vSubStream struct {
	grpc.ServerStream
	ctx  context.Context
	mu   sync.Mutex
	msgs []*client.Message
}

func (s *vSubStream) Context() context.Context { return s.ctx }
func (s *vSubStream) Send(m *client.Message) error {
	s.mu.Lock()
	s.msgs = append(s.msgs, m)
	s.mu.Unlock()
	return nil
}
func (s *vSubStream) count() int { s.mu.Lock(); defer s.mu.Unlock(); return len(s.msgs) }

type vPubStream struct {
	grpc.ServerStream
	ctx   context.Context
	reqs  []*client.PublishRequest
	mu    sync.Mutex
	resps []*client.PublishResponse
	hold  chan struct{}
}

func (s *vPubStream) Context() context.Context { return s.ctx }
func (s *vPubStream) Recv() (*client.PublishRequest, error) {
	if len(s.reqs) == 0 {
		<-s.hold // keep the session open until the driver has looked at the responses
		return nil, io.EOF
	}
	r := s.reqs[0]
	s.reqs = s.reqs[1:]
	return r, nil
}
func (s *vPubStream) Send(r *client.PublishResponse) error {
	s.mu.Lock()
	s.resps = append(s.resps, r)
	s.mu.Unlock()
	return nil
}

func TestVerifC15(t *testing.T) {
	out := vOpenOut()
	defer out.close()
	srv := vStartServer("c15", func(c *Config) { c.CursorsStream.Partitions = 1 })
	defer srv.stop()
	dir := filepath.Join(os.Getenv("VERIF_WORK"), "c15")
	os.MkdirAll(dir, 0o755)
	modelPath, policyPath := filepath.Join(dir, "model.conf"), filepath.Join(dir, "policy.csv")
	os.WriteFile(modelPath, []byte(vC15Model), 0o644)
	methods := []string{"CreateStream", "DeleteStream", "PauseStream", "SetStreamReadonly", "Subscribe", "FetchMetadata",
		"FetchPartitionMetadata", "Publish", "PublishToSubject", "SetCursor", "FetchCursor",
		"JoinConsumerGroup", "LeaveConsumerGroup", "FetchConsumerGroupAssignments", "ReportConsumerGroupCoordinator"}
	policy := ""
	for _, res := range []string{"s1", "s2", "*", "new-by-admin", "__cursors"} {
		for _, m := range methods {
			policy += fmt.Sprintf("p, admin, %s, %s\n", res, m)
		}
	}
	// carol holds every method, on the resource s1 only: a call that asks the policy about the wrong
	// resource, or that acts before a second (nested) check, passes for her where it must not
	for _, m := range methods {
		policy += fmt.Sprintf("p, carol, s1, %s\n", m)
	}
	os.WriteFile(policyPath, []byte(policy), 0o644)
	enf, err := casbin.NewEnforcer(modelPath, policyPath)
	if err != nil {
		t.Fatal(err)
	}
	enf.LoadPolicy()
	srv.s.authzEnforcer = &authzEnforcer{enforcer: enf}
	srv.s.config.TLSClientAuthz = true
	api := srv.api
	as := func(id string) context.Context {
		c, _ := context.WithTimeout(context.WithValue(context.Background(), "clientID", id), 5*time.Second) // nolint
		return c
	}
	admin, mallory := "admin", "mallory"

	// ---- set-up by the authorised client
	must := func(err error, what string) {
		if err != nil {
			t.Fatalf("set-up %s: %v", what, err)
		}
	}
	_, err = api.CreateStream(as(admin), &client.CreateStreamRequest{Name: "s1", Subject: "s1", Partitions: 1})
	must(err, "create s1")
	_, err = api.CreateStream(as(admin), &client.CreateStreamRequest{Name: "s2", Subject: "s2", Partitions: 1})
	must(err, "create s2")
	p1 := srv.waitLeader("s1", 0)
	srv.waitLeader("s2", 0)
	for i := 0; i < 3; i++ {
		_, err = api.Publish(as(admin), &client.PublishRequest{Stream: "s1", Value: []byte(fmt.Sprintf("m%d", i)), AckPolicy: client.AckPolicy_LEADER})
		must(err, "publish")
	}
	_, err = api.SetCursor(as(admin), &client.SetCursorRequest{Stream: "s1", Partition: 0, CursorId: "cur", Offset: 2})
	must(err, "set cursor")
	_, err = api.JoinConsumerGroup(as(admin), &client.JoinConsumerGroupRequest{GroupId: "g1", ConsumerId: "member1", Streams: []string{"s1"}})
	must(err, "join group")
	// an authorised group member is subscribed to s1
	subCtx, subCancel := context.WithCancel(context.WithValue(context.Background(), "clientID", admin))
	defer subCancel()
	memberStream := &vSubStream{ctx: subCtx}
	go api.Subscribe(&client.SubscribeRequest{Stream: "s1", Partition: 0, StartPosition: client.StartPosition_NEW_ONLY,
		Consumer: &client.Consumer{GroupId: "g1", ConsumerId: "member1", GroupEpoch: 1}}, memberStream)
	deadline := time.Now().Add(3 * time.Second)
	for p1.GetGroupConsumer("g1") == nil && time.Now().Before(deadline) {
		time.Sleep(2 * time.Millisecond)
	}
	member := p1.GetGroupConsumer("g1")
	if member == nil {
		t.Fatal("group member did not subscribe")
	}
	// s2 is paused: an unauthorised call must not resume it
	_, err = api.PauseStream(as(admin), &client.PauseStreamRequest{Name: "s2"})
	must(err, "pause s2")

	snapshot := func() vM {
		p1 := srv.s.metadata.GetPartition("s1", 0)
		p2 := srv.s.metadata.GetPartition("s2", 0)
		st := vM{"s1_exists": p1 != nil, "s2_exists": p2 != nil, "new_exists": srv.s.metadata.GetStream("new1") != nil, "other_exists": srv.s.metadata.GetStream("other1") != nil}
		if p2 != nil && !p2.IsPaused() {
			st["s2_newest"] = p2.log.NewestOffset()
		}
		if p2 != nil {
			st["s2_readonly"] = p2.GetReadonly()
		}
		if p1 != nil {
			st["s1_newest"] = p1.log.NewestOffset()
			st["s1_paused"] = p1.IsPaused()
			st["s1_readonly"] = p1.IsReadonly()
			m := p1.GetGroupConsumer("g1")
			st["member_holds_slot"] = m == member
			closed := false
			select {
			case <-member.sub.Closed():
				closed = true
			default:
			}
			st["member_closed"] = closed
		}
		if p2 != nil {
			st["s2_paused"] = p2.IsPaused()
		}
		cur, _ := api.FetchCursor(as(admin), &client.FetchCursorRequest{Stream: "s1", Partition: 0, CursorId: "cur"})
		if cur != nil {
			st["cursor"] = cur.Offset
		}
		g := srv.s.metadata.GetConsumerGroup("g1")
		if g != nil {
			ms := g.GetMembers()
			st["group_members"] = len(ms)
			_, hasM := ms["mallory-consumer"]
			st["mallory_in_group"] = hasM
		} else {
			st["group_members"] = 0
		}
		return st
	}
	diff := func(a, b vM) []string {
		var d []string
		for k, v := range a {
			if fmt.Sprint(v) != fmt.Sprint(b[k]) {
				d = append(d, fmt.Sprintf("%s: %v -> %v", k, v, b[k]))
			}
		}
		return d
	}
	base := snapshot()
	report := func(method string, err error, delivered int, extra string) {
		time.Sleep(30 * time.Millisecond) // let asynchronous effects (NATS publish -> log) land
		after := snapshot()
		effects := diff(base, after)
		if delivered > 0 {
			effects = append(effects, fmt.Sprintf("%d messages delivered to the caller", delivered))
		}
		if extra != "" {
			effects = append(effects, extra)
		}
		rejected := err != nil
		out.emit(vM{"k": "call", "method": method, "rejected": rejected, "effects": effects, "err": fmt.Sprint(err)})
		if !rejected || len(effects) > 0 {
			out.emit(vM{"k": "violation", "sig": "unauthorised:" + method,
				"what": fmt.Sprintf("%s by a client without the policy entry: rejected=%v, effects=%v", method, rejected, effects),
				"case": vM{"k": "call", "method": method}})
		}
		base = snapshot()
	}

	// ---- every method as the client without any policy entry
	_, err = api.CreateStream(as(mallory), &client.CreateStreamRequest{Name: "new1", Subject: "new1", Partitions: 1})
	report("CreateStream", err, 0, "")
	_, err = api.DeleteStream(as(mallory), &client.DeleteStreamRequest{Name: "s1"})
	report("DeleteStream", err, 0, "")
	_, err = api.PauseStream(as(mallory), &client.PauseStreamRequest{Name: "s1"})
	report("PauseStream", err, 0, "")
	_, err = api.SetStreamReadonly(as(mallory), &client.SetStreamReadonlyRequest{Name: "s1", Readonly: true})
	report("SetStreamReadonly", err, 0, "")
	_, err = api.Publish(as(mallory), &client.PublishRequest{Stream: "s1", Value: []byte("evil"), AckPolicy: client.AckPolicy_LEADER})
	report("Publish", err, 0, "")
	_, err = api.Publish(as(mallory), &client.PublishRequest{Stream: "s2", Value: []byte("evil"), AckPolicy: client.AckPolicy_LEADER})
	report("Publish(paused stream)", err, 0, "")
	_, err = api.PublishToSubject(as(mallory), &client.PublishToSubjectRequest{Subject: "s1", Value: []byte("evil"), AckPolicy: client.AckPolicy_NONE})
	report("PublishToSubject", err, 0, "")
	_, err = api.SetCursor(as(mallory), &client.SetCursorRequest{Stream: "s1", Partition: 0, CursorId: "cur", Offset: 1})
	report("SetCursor", err, 0, "")
	fc, err := api.FetchCursor(as(mallory), &client.FetchCursorRequest{Stream: "s1", Partition: 0, CursorId: "cur"})
	extra := ""
	if fc != nil {
		extra = "cursor value returned"
	}
	report("FetchCursor", err, 0, extra)
	fm, err := api.FetchMetadata(as(mallory), &client.FetchMetadataRequest{})
	extra = ""
	if fm != nil {
		extra = "metadata returned"
	}
	report("FetchMetadata", err, 0, extra)
	fpm, err := api.FetchPartitionMetadata(as(mallory), &client.FetchPartitionMetadataRequest{Stream: "s1", Partition: 0})
	extra = ""
	if fpm != nil {
		extra = "partition metadata returned"
	}
	report("FetchPartitionMetadata", err, 0, extra)
	// Subscribe: plain, group take-over, paused stream
	for _, v := range []struct {
		name string
		req  *client.SubscribeRequest
	}{
		{"Subscribe", &client.SubscribeRequest{Stream: "s1", Partition: 0, StartPosition: client.StartPosition_EARLIEST}},
		{"Subscribe(group take-over)", &client.SubscribeRequest{Stream: "s1", Partition: 0, StartPosition: client.StartPosition_EARLIEST,
			Consumer: &client.Consumer{GroupId: "g1", ConsumerId: "mallory-consumer", GroupEpoch: 99}}},
		{"Subscribe(paused stream)", &client.SubscribeRequest{Stream: "s2", Partition: 0, StartPosition: client.StartPosition_EARLIEST, Resume: true}},
	} {
		cctx, cancel := context.WithCancel(context.WithValue(context.Background(), "clientID", mallory))
		st := &vSubStream{ctx: cctx}
		done := make(chan error, 1)
		go func() { done <- api.Subscribe(v.req, st) }()
		var serr error
		select {
		case serr = <-done:
		case <-time.After(300 * time.Millisecond):
			serr = nil // still running: it was accepted
		}
		n := st.count()
		cancel()
		report(v.name, serr, n, "")
	}
	// PublishAsync
	pctx, pcancel := context.WithCancel(context.WithValue(context.Background(), "clientID", mallory))
	ps := &vPubStream{ctx: pctx, hold: make(chan struct{}), reqs: []*client.PublishRequest{
		{Stream: "s1", Value: []byte("evil-async"), AckPolicy: client.AckPolicy_LEADER, CorrelationId: "c1"},
		{Stream: "s2", Value: []byte("evil-async"), AckPolicy: client.AckPolicy_LEADER, CorrelationId: "c2"}}}
	pdone := make(chan error, 1)
	go func() { pdone <- api.PublishAsync(ps) }()
	time.Sleep(200 * time.Millisecond)
	ps.mu.Lock()
	denied, acked := 0, 0
	for _, r := range ps.resps {
		if r.AsyncError != nil && r.AsyncError.Code == client.PublishAsyncError_PERMISSION_DENIED {
			denied++
		}
		if r.Ack != nil && r.AsyncError == nil {
			acked++
		}
	}
	ps.mu.Unlock()
	close(ps.hold)
	pcancel()
	var perr error
	if denied == 2 {
		perr = fmt.Errorf("both messages answered PERMISSION_DENIED")
	}
	extra = ""
	if acked > 0 {
		extra = fmt.Sprintf("%d positive acks", acked)
	}
	report("PublishAsync", perr, 0, extra)
	// consumer-group RPCs
	_, err = api.JoinConsumerGroup(as(mallory), &client.JoinConsumerGroupRequest{GroupId: "g1", ConsumerId: "mallory-consumer", Streams: []string{"s1"}})
	report("JoinConsumerGroup", err, 0, "")
	fa, err := api.FetchConsumerGroupAssignments(as(mallory), &client.FetchConsumerGroupAssignmentsRequest{GroupId: "g1", ConsumerId: "member1", Epoch: 0})
	extra = ""
	if fa != nil {
		extra = "assignments returned"
	}
	report("FetchConsumerGroupAssignments", err, 0, extra)
	_, err = api.ReportConsumerGroupCoordinator(as(mallory), &client.ReportConsumerGroupCoordinatorRequest{GroupId: "g1", ConsumerId: "member1", Coordinator: "c15", Epoch: 0})
	report("ReportConsumerGroupCoordinator", err, 0, "")
	_, err = api.LeaveConsumerGroup(as(mallory), &client.LeaveConsumerGroupRequest{GroupId: "g1", ConsumerId: "member1"})
	report("LeaveConsumerGroup", err, 0, "")

	// ---- the client whose entries name another resource
	carol := "carol"
	_, err = api.CreateStream(as(carol), &client.CreateStreamRequest{Name: "other1", Subject: "s1", Partitions: 1})
	report("CreateStream(entry for another stream whose name is this stream's subject)", err, 0, "")
	_, err = api.SetCursor(as(carol), &client.SetCursorRequest{Stream: "s1", Partition: 0, CursorId: "cur", Offset: 1})
	report("SetCursor(entry for the stream, none for the cursors stream it publishes to)", err, 0, "")
	_, err = api.DeleteStream(as(carol), &client.DeleteStreamRequest{Name: "s2"})
	report("DeleteStream(entry for another stream)", err, 0, "")
	_, err = api.SetStreamReadonly(as(carol), &client.SetStreamReadonlyRequest{Name: "s2", Readonly: true})
	report("SetStreamReadonly(entry for another stream)", err, 0, "")
	_, err = api.Publish(as(carol), &client.PublishRequest{Stream: "s2", Value: []byte("evil"), AckPolicy: client.AckPolicy_NONE})
	report("Publish(entry for another stream)", err, 0, "")
	_, err = api.PublishToSubject(as(carol), &client.PublishToSubjectRequest{Subject: "s2", Value: []byte("evil"), AckPolicy: client.AckPolicy_NONE})
	report("PublishToSubject(entry for another subject)", err, 0, "")
	fc2, err := api.FetchCursor(as(carol), &client.FetchCursorRequest{Stream: "s2", Partition: 0, CursorId: "cur"})
	extra = ""
	if fc2 != nil {
		extra = "cursor value returned"
	}
	report("FetchCursor(entry for another stream)", err, 0, extra)
	fpm2, err := api.FetchPartitionMetadata(as(carol), &client.FetchPartitionMetadataRequest{Stream: "s2", Partition: 0})
	extra = ""
	if fpm2 != nil {
		extra = "partition metadata returned"
	}
	report("FetchPartitionMetadata(entry for another stream)", err, 0, extra)

	// ---- a policy reload takes effect for subsequent calls
	os.WriteFile(policyPath, []byte(policy+"p, mallory, s1, PauseStream\n"), 0o644)
	srv.s.authzEnforcer.authzLock.Lock()
	enf.LoadPolicy()
	srv.s.authzEnforcer.authzLock.Unlock()
	_, err = api.PauseStream(as(mallory), &client.PauseStreamRequest{Name: "s1"})
	out.emit(vM{"k": "reload", "step": "granted", "rejected": err != nil})
	if err != nil {
		out.emit(vM{"k": "violation", "sig": "reload-grant-ignored", "what": "a policy entry added by a reload is not honoured: " + err.Error(), "case": vM{"k": "reload"}})
	}
	os.WriteFile(policyPath, []byte(policy), 0o644)
	srv.s.authzEnforcer.authzLock.Lock()
	enf.LoadPolicy()
	srv.s.authzEnforcer.authzLock.Unlock()
	_, err = api.SetStreamReadonly(as(mallory), &client.SetStreamReadonlyRequest{Name: "s1", Readonly: true})
	_, err2 := api.PauseStream(as(mallory), &client.PauseStreamRequest{Name: "s1"})
	out.emit(vM{"k": "reload", "step": "revoked", "rejected": err != nil && err2 != nil})
	if err == nil || err2 == nil {
		out.emit(vM{"k": "violation", "sig": "reload-revoke-ignored", "what": "a policy entry removed by a reload is still honoured", "case": vM{"k": "reload"}})
	}
	subCancel()
}
