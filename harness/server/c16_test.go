package server

// C16 driver at the API: unary Publish, PublishAsync sessions and racing publishers against streams with
// optimistic concurrency control, with and without server batching.  The oracle is the property's own
// rule, kept by the driver: a publish with an expected offset is stored iff it is assigned exactly that
// offset; otherwise the publisher is told and the log is unchanged; -1 waives the check; the NONE policy
// (which could not be told) is refused.

import (
	"context"
	"fmt"
	"io"
	"math"
	"strings"
	"sync"
	"testing"
	"time"

	client "github.com/liftbridge-io/liftbridge-api/v2/go"
	"google.golang.org/grpc"
	"google.golang.org/grpc/status"
)

type vC16Stream struct {
	grpc.ServerStream
	ctx   context.Context
	reqs  []*client.PublishRequest
	mu    sync.Mutex
	resps []*client.PublishResponse
	hold  chan struct{}
}

func (s *vC16Stream) Context() context.Context { return s.ctx }
func (s *vC16Stream) Recv() (*client.PublishRequest, error) {
	s.mu.Lock()
	if len(s.reqs) > 0 {
		r := s.reqs[0]
		s.reqs = s.reqs[1:]
		s.mu.Unlock()
		return r, nil
	}
	s.mu.Unlock()
	<-s.hold
	return nil, io.EOF
}
func (s *vC16Stream) Send(r *client.PublishResponse) error {
	s.mu.Lock()
	s.resps = append(s.resps, r)
	s.mu.Unlock()
	return nil
}

// vC16Kind maps an answer's text to the model's answer kinds: 0 positive, 1 too large, 2 incorrect offset,
// 3 encryption, 4 refused by the API (NONE policy on a stream with concurrency control), 9 anything else.
func vC16Kind(msg string) int {
	switch {
	case msg == "":
		return 0
	case strings.Contains(msg, "incorrect expected offset"):
		return 2
	case strings.Contains(msg, "must have AckPolicy set"):
		return 4
	case strings.Contains(msg, "exceeds max replication size"):
		return 1
	case strings.Contains(msg, "encryption failed"):
		return 3
	}
	return 9
}

func TestVerifC16Api(t *testing.T) {
	out := vOpenOut()
	defer out.close()
	stats := map[string]int{}
	r := vNewRand(vSeed() + 16)
	n := vEnvInt("VERIF_N", 4)
	id := 0
	for _, batch := range []bool{false, true} {
		srv := vStartServer(fmt.Sprintf("o%v", batch), func(cfg *Config) {
			cfg.CursorsStream.Partitions = 0
			cfg.Clustering.ReplicationMaxBytes = 2000
			if batch {
				cfg.BatchMaxMessages = 8
				cfg.BatchMaxTime = 20 * time.Millisecond
			}
		})
		api := srv.api
		for k := 0; k < n; k++ {
			id++
			name := fmt.Sprintf("occ%d", id)
			ctx, cancel := context.WithTimeout(context.Background(), 10*time.Second)
			_, err := api.CreateStream(ctx, &client.CreateStreamRequest{Name: name, Subject: name, Partitions: 1,
				OptimisticConcurrencyControl: &client.NullableBool{Value: true}})
			cancel()
			if err != nil {
				t.Fatal(err)
			}
			p := srv.waitLeader(name, 0)
			var spec []string // the values the log must hold, by offset
			var steps []vM
			viol, vsig := "", ""
			setViol := func(sig, what string) {
				if viol == "" {
					viol, vsig = what, sig
				}
			}
			seq := 0
			answers := []vM{} // every answer received so far: correlation number, offset, kind
			obs := func(st vM) vM {
				time.Sleep(15 * time.Millisecond)
				st["newest"], st["hw"] = p.log.NewestOffset(), p.log.HighWatermark()
				st["answers"] = append([]vM{}, answers...)
				return st
			}
			newVal := func() string {
				seq++
				if r.intn(12) == 0 {
					return fmt.Sprintf("u%d-%d-%s", id, seq, strings.Repeat("L", 2500)) // larger than clustering.replication.max.bytes
				}
				return fmt.Sprintf("u%d-%d", id, seq)
			}
			large := func(v string) bool { return len(v) > 2000 }
			expectedFor := func(next int64) (int64, string) {
				switch r.pick(4, 5, 3, 3, 2) {
				case 0:
					return -1, "waived"
				case 1:
					return next, "next"
				case 2:
					if next > 0 {
						return next - 1 - int64(r.intn(int(next))), "stale"
					}
					return next + 1, "future"
				case 3:
					return next + 1 + int64(r.intn(3)), "future"
				}
				return []int64{-2, -100, math.MinInt64}[r.intn(3)], "negative"
			}
			policies := []client.AckPolicy{client.AckPolicy_LEADER, client.AckPolicy_ALL, client.AckPolicy_NONE}
			checkLog := func(where string) {
				got := []string{}
				for _, e := range vLogDump(p) {
					got = append(got, e["v"].(string))
				}
				if fmt.Sprint(got) != fmt.Sprint(spec) {
					setViol("log-differs", fmt.Sprintf("%s: the log holds %v; by the rule (stored iff the expected offset is -1 or the next offset, never under the NONE policy) it holds %v", where, got, spec))
				}
			}
			nsteps := 8 + r.intn(10)
			for j := 0; j < nsteps && viol == ""; j++ {
				next := int64(len(spec))
				switch r.pick(6, 3, 2) {
				case 0: // one unary Publish
					exp, kind := expectedFor(next)
					pol := policies[r.pick(4, 3, 2)]
					val := newVal()
					ctx, cancel := context.WithTimeout(context.Background(), 3*time.Second)
					resp, err := api.Publish(ctx, &client.PublishRequest{Stream: name, Value: []byte(val), AckPolicy: pol, ExpectedOffset: exp, CorrelationId: fmt.Sprintf("m%d", seq)})
					cancel()
					stats[fmt.Sprintf("unary/%s/%s", pol, kind)]++
					accept := pol != client.AckPolicy_NONE && (exp == -1 || exp == next) && !large(val)
					if large(val) {
						stats["unary/too-large"]++
					}
					if err == nil && resp.Ack != nil {
						answers = append(answers, vM{"corr": seq, "off": resp.Ack.Offset, "kind": 0})
					} else if err != nil {
						answers = append(answers, vM{"corr": seq, "off": 0, "kind": vC16Kind(status.Convert(err).Message())})
					}
					st := obs(vM{"op": "api", "msgs": []vM{{"corr": seq, "policy": pol.String(), "expected": exp, "large": large(val)}}, "kind": kind, "ok": err == nil})
					if accept {
						spec = append(spec, val)
						if err != nil {
							sig := "conditional-publish-refused"
							if exp == -1 {
								sig = "unconditional-publish-refused"
							}
							setViol(sig, fmt.Sprintf("Publish(policy %s, expected offset %d) on a log whose next offset is %d was refused: %v", pol, exp, next, err))
						} else if resp.Ack == nil || resp.Ack.Offset != next {
							setViol("ack-wrong-offset", fmt.Sprintf("Publish(policy %s, expected offset %d) succeeded with ack %v; the message belongs at offset %d", pol, exp, resp.Ack, next))
						}
					} else if err == nil {
						setViol("refused-publish-reported-as-success", fmt.Sprintf("Publish(policy %s, expected offset %d) on a log whose next offset is %d returned success (ack %v); such a message is not stored and the publisher must be told", pol, exp, next, resp.GetAck()))
					}
					steps = append(steps, st)
					checkLog("after a unary publish")
				case 1: // a PublishAsync session with several requests in flight
					m := 2 + r.intn(4)
					var reqs []*client.PublishRequest
					type want struct {
						accept bool
						off    int64
						none   bool
					}
					wants := map[string]want{}
					cur := next
					var descr []vM
					for g := 0; g < m; g++ {
						exp, kind := expectedFor(cur)
						pol := policies[r.pick(4, 3, 2)]
						val := newVal()
						cid := fmt.Sprintf("m%d", seq)
						reqs = append(reqs, &client.PublishRequest{Stream: name, Value: []byte(val), AckPolicy: pol, ExpectedOffset: exp, CorrelationId: cid})
						acc := pol != client.AckPolicy_NONE && (exp == -1 || exp == cur) && !large(val)
						wants[cid] = want{acc, cur, pol == client.AckPolicy_NONE}
						if acc {
							spec = append(spec, val)
							cur++
						}
						descr = append(descr, vM{"corr": seq, "policy": pol.String(), "expected": exp, "large": large(val), "kind": kind})
						stats[fmt.Sprintf("async/%s/%s", pol, kind)]++
					}
					sctx, scancel := context.WithCancel(context.Background())
					ps := &vC16Stream{ctx: sctx, hold: make(chan struct{}), reqs: reqs}
					done := make(chan error, 1)
					go func() { done <- api.PublishAsync(ps) }()
					deadline := time.Now().Add(3 * time.Second)
					for time.Now().Before(deadline) {
						ps.mu.Lock()
						got := len(ps.resps)
						ps.mu.Unlock()
						if got >= m {
							break
						}
						time.Sleep(5 * time.Millisecond)
					}
					time.Sleep(60 * time.Millisecond)
					close(ps.hold)
					scancel()
					<-done
					ps.mu.Lock()
					seen := map[string]*client.PublishResponse{}
					for _, rsp := range ps.resps {
						seen[rsp.CorrelationId] = rsp
					}
					ps.mu.Unlock()
					for cid, w := range wants {
						rsp := seen[cid]
						switch {
						case rsp == nil:
							setViol("publish-unanswered", fmt.Sprintf("PublishAsync request %s got no response within 3 s", cid))
						case w.accept && (rsp.AsyncError != nil || rsp.Ack == nil || rsp.Ack.Offset != w.off):
							setViol("conditional-publish-refused", fmt.Sprintf("PublishAsync request %s is due at offset %d; the response is %v", cid, w.off, rsp))
						case !w.accept && rsp.AsyncError == nil:
							setViol("refused-publish-reported-as-success", fmt.Sprintf("PublishAsync request %s (NONE policy: %v) must be refused; the response is %v", cid, w.none, rsp))
						}
					}
					for _, d := range descr {
						rsp := seen[fmt.Sprintf("m%d", d["corr"])]
						switch {
						case rsp == nil:
						case rsp.AsyncError != nil:
							answers = append(answers, vM{"corr": d["corr"], "off": 0, "kind": vC16Kind(rsp.AsyncError.Message)})
						case rsp.Ack != nil:
							answers = append(answers, vM{"corr": d["corr"], "off": rsp.Ack.Offset, "kind": 0})
						}
					}
					steps = append(steps, obs(vM{"op": "api", "msgs": descr, "session": true}))
					checkLog("after a PublishAsync session")
				case 2: // publishers racing with the same expected offset
					m := 2 + r.intn(5)
					exp := next
					if r.intn(4) == 0 && next > 0 {
						exp = next - 1
					}
					var wg sync.WaitGroup
					var mu sync.Mutex
					wins := []string{}
					var racers, winners []vM
					for g := 0; g < m; g++ {
						seq++
						val := fmt.Sprintf("u%d-%d", id, seq)
						me := seq
						wg.Add(1)
						go func() {
							defer wg.Done()
							ctx, cancel := context.WithTimeout(context.Background(), 3*time.Second)
							defer cancel()
							resp, err := api.Publish(ctx, &client.PublishRequest{Stream: name, Value: []byte(val), AckPolicy: client.AckPolicy_LEADER, ExpectedOffset: exp, CorrelationId: fmt.Sprintf("m%d", me)})
							mu.Lock()
							defer mu.Unlock()
							d := vM{"corr": me, "policy": "LEADER", "expected": exp, "large": false}
							if err == nil && resp.Ack != nil {
								wins = append(wins, val)
								winners = append(winners, d)
								answers = append(answers, vM{"corr": me, "off": resp.Ack.Offset, "kind": 0})
							} else {
								racers = append(racers, d)
								if err != nil {
									answers = append(answers, vM{"corr": me, "off": 0, "kind": vC16Kind(status.Convert(err).Message())})
								}
							}
						}()
					}
					wg.Wait()
					racers = append(winners, racers...) // the order in which the leader must have taken them: whoever won came first
					stats["race"]++
					wantWins := 0
					if exp == next {
						wantWins = 1
					}
					if len(wins) != wantWins {
						setViol("racing-publishers", fmt.Sprintf("%d publishers raced with expected offset %d on a log whose next offset was %d: %d were told they succeeded", m, exp, next, len(wins)))
					}
					if len(wins) > 0 {
						spec = append(spec, wins[0])
					}
					steps = append(steps, obs(vM{"op": "api", "msgs": racers, "race": true, "wins": len(wins)}))
					checkLog("after a race")
				}
			}
			cj := vM{"k": "occ", "id": id, "batch": batch, "steps": steps}
			if viol != "" {
				out.emit(vM{"k": "violation", "sig": vsig, "what": viol, "case": cj})
			}
			out.emit(cj)
		}
		srv.stop()
	}
	out.emit(vM{"k": "stat", "dist": stats})
}
