package server

// C17 server-level driver: encrypted streams on in-process single-node servers with the three
// batching configurations (no batching, batches without waiting, batches filled while waiting on
// the batch timer, i.e. all three receive sites of the message loop).  Values of every kind are
// published in bursts and one by one; the stored log is read raw (no value in clear, each stored
// value opens to what was published) and a subscription must deliver exactly what was published.

import (
	"bytes"
	"context"
	"fmt"
	"os"
	"sync"
	"testing"
	"time"

	client "github.com/liftbridge-io/liftbridge-api/v2/go"
)

func TestVerifC17Server(t *testing.T) {
	out := vOpenOut()
	defer out.close()
	stats := map[string]int{}
	os.Setenv("LIFTBRIDGE_ENCRYPTION_KEY", "t7w!z%C*F-JaNcRf")
	r := vNewRand(vSeed() + 17)
	rounds := vEnvInt("VERIF_N", 3)
	type conf struct {
		name    string
		maxMsgs int
		maxTime time.Duration
	}
	confs := []conf{{"nobatch", 1, 0}, {"batch-nowait", 8, 0}, {"batch-wait", 8, 40 * time.Millisecond}}
	id := 0
	for round := 0; round < rounds; round++ {
		for _, cf := range confs {
			id++
			// encryption is switched on for the stream itself, or server-wide (streams.encryption) with a
			// stream that says nothing about it
			serverWide := id%2 == 0
			srv := vStartServer(fmt.Sprintf("c17x%d", id), func(cfg *Config) {
				cfg.BatchMaxMessages = cf.maxMsgs
				cfg.BatchMaxTime = cf.maxTime
				cfg.Streams.Encryption = serverWide
			})
			name := "enc"
			err := srv.createStream(name, 1, func(q *client.CreateStreamRequest) {
				if !serverWide {
					q.Encryption = &client.NullableBool{Value: true}
				}
			})
			stats[fmt.Sprintf("encryption-from/server-wide=%v", serverWide)]++
			if err != nil {
				t.Fatal(err)
			}
			p := srv.waitLeader(name, 0)
			viol, vsig := "", ""
			setViol := func(sig, what string) {
				if viol == "" {
					viol, vsig = what, sig
				}
			}
			if p.encryptionHandler == nil {
				setViol("not-encrypted", fmt.Sprintf("a stream for which encryption is enabled (server-wide default: %v) has no encryption handler", serverWide))
			}
			// the values
			var values [][]byte
			nvals := 10 + r.intn(14)
			for i := 0; i < nvals; i++ {
				switch r.pick(2, 2, 2, 4, 2, 3) {
				case 0:
					values = append(values, nil)
				case 1:
					values = append(values, []byte{})
				case 2:
					values = append(values, []byte{byte(r.next())})
				case 3:
					values = append(values, []byte(fmt.Sprintf("plaintext-marker-%04d-%s", i, cf.name)))
				case 4:
					values = append(values, bytes.Repeat([]byte(fmt.Sprintf("secret%02d", i)), 25))
				default:
					values = append(values, r.bytesN(16+r.intn(40)))
				}
			}
			// publish: bursts (concurrent) and single messages separated by pauses
			published := map[string][]byte{} // key -> value, for those acknowledged
			var mu sync.Mutex
			publish := func(i int) {
				key := fmt.Sprintf("k%03d", i)
				ctx, cancel := context.WithTimeout(context.Background(), 10*time.Second)
				defer cancel()
				_, err := srv.api.Publish(ctx, &client.PublishRequest{Stream: name, Partition: 0, Key: []byte(key), Value: values[i], AckPolicy: client.AckPolicy_LEADER})
				if err == nil {
					mu.Lock()
					published[key] = values[i]
					mu.Unlock()
				} else {
					stats["publish-failed"]++
				}
			}
			i := 0
			for i < nvals {
				if r.intn(2) == 0 {
					k := 2 + r.intn(5)
					var wg sync.WaitGroup
					for j := 0; j < k && i < nvals; j, i = j+1, i+1 {
						wg.Add(1)
						go func(i int) { defer wg.Done(); publish(i) }(i)
					}
					wg.Wait()
					stats["burst"]++
				} else {
					publish(i)
					i++
					// arrive while the loop waits on the batch timer
					time.Sleep(time.Duration(5+r.intn(25)) * time.Millisecond)
					stats["single"]++
				}
			}
			// the stored log, raw
			type rec struct {
				key    string
				stored []byte
			}
			var stored []rec
			if rd, err := p.log.NewReader(0, true); err == nil {
				hb := make([]byte, 28)
				for {
					ctx, cancel := context.WithCancel(context.Background())
					cancel()
					m, _, _, _, err := rd.ReadMessage(ctx, hb)
					if err != nil {
						break
					}
					stored = append(stored, rec{string(m.Key()), append([]byte{}, m.Value()...)})
				}
			}
			if len(stored) != len(published) {
				setViol("stored-count", fmt.Sprintf("%d messages acknowledged, %d stored", len(published), len(stored)))
			}
			var order []string
			for _, s := range stored {
				order = append(order, s.key)
				want, ok := published[s.key]
				if !ok {
					continue
				}
				if len(want) >= 8 && bytes.Contains(s.stored, want) {
					setViol("stored-in-clear", fmt.Sprintf("config %s: the log of the encrypted stream holds the published value of %s (%d bytes) in clear", cf.name, s.key, len(want)))
				}
				if p.encryptionHandler != nil {
					got, err := p.encryptionHandler.Read(s.stored)
					if err != nil || !bytes.Equal(got, want) {
						setViol("stored-does-not-open", fmt.Sprintf("config %s: the stored value of %s (%d bytes) does not open to the %d published bytes (%v)", cf.name, s.key, len(s.stored), len(want), err))
					}
				}
				stats[fmt.Sprintf("value-len/%s", map[bool]string{true: "0", false: ">0"}[len(want) == 0])]++
			}
			// what a subscriber gets
			ctx, cancel := context.WithCancel(context.Background())
			sub, st := p.Subscribe(ctx, &client.SubscribeRequest{Stream: name, Partition: 0, StartPosition: client.StartPosition_EARLIEST})
			if st != nil {
				if len(stored) > 0 {
					setViol("subscribe-refused", st.Message())
				}
			} else {
				n := 0
				idle := time.NewTimer(300 * time.Millisecond)
			loop:
				for n < len(stored) {
					select {
					case m := <-sub.Messages():
						want, ok := published[string(m.Key)]
						if int(m.Offset) < len(order) && order[m.Offset] != string(m.Key) {
							setViol("delivery-order", fmt.Sprintf("offset %d delivered with key %s, stored with key %s", m.Offset, m.Key, order[m.Offset]))
						}
						if ok && !bytes.Equal(m.Value, want) {
							setViol("delivered-differs", fmt.Sprintf("config %s: %s was published with %d bytes, the subscriber received %d bytes%s", cf.name, m.Key, len(want), len(m.Value),
								map[bool]string{true: " (the stored, sealed form)", false: ""}[int(m.Offset) < len(stored) && bytes.Equal(m.Value, stored[m.Offset].stored)]))
						}
						n++
						idle.Reset(300 * time.Millisecond)
					case e := <-sub.Errors():
						setViol("delivery-error", fmt.Sprintf("config %s: subscription to the encrypted stream failed after %d of %d messages: %s", cf.name, n, len(stored), e.Message()))
						break loop
					case <-idle.C:
						setViol("delivery-stalled", fmt.Sprintf("config %s: subscription delivered %d of %d messages", cf.name, n, len(stored)))
						break loop
					}
				}
				cancel()
				sub.Close()
			}
			cancel()
			stats["conf/"+cf.name]++
			stats["messages"] += len(stored)
			cj := vM{"k": "encsrv", "id": id, "conf": cf.name, "values": len(values), "stored": len(stored)}
			if viol != "" {
				out.emit(vM{"k": "violation", "sig": vsig, "what": viol, "case": cj})
			}
			out.emit(cj)
			srv.stop()
		}
	}
	out.emit(vM{"k": "stat", "dist": stats})
}
