package server

// C18 driver: a single-node server with the activity stream enabled.  Stream and consumer-group
// operations through the API, periods in which the activity partition refuses publishes
// (read-only), controller stepdown/promotion, forced Raft snapshots with a short trailing log,
// and clean restarts.  After quiescence the activity stream is read back and compared with the
// committed Raft log.

import (
	"context"
	"encoding/json"
	"fmt"
	"os"
	"testing"
	"time"

	"github.com/hashicorp/raft"
	client "github.com/liftbridge-io/liftbridge-api/v2/go"
	pb "google.golang.org/protobuf/proto"

	proto "github.com/liftbridge-io/liftbridge/server/protocol"
)

func vC18Config(cfg *Config) {
	cfg.ActivityStream.Enabled = true
	cfg.ActivityStream.PublishTimeout = 2 * time.Second
	cfg.ActivityStream.PublishAckPolicy = client.AckPolicy_LEADER
	cfg.CursorsStream.Partitions = 0
}

// vC18RaftLog returns (index, op name) of every command entry in the Raft log and the first index.
func vC18RaftLog(s *Server) (uint64, []vM) {
	rn := s.getRaft()
	first, _ := rn.store.FirstIndex()
	last, _ := rn.store.LastIndex()
	var out []vM
	for i := first; i <= last && first > 0; i++ {
		l := new(raft.Log)
		if err := rn.store.GetLog(i, l); err != nil {
			continue
		}
		if l.Type != raft.LogCommand {
			continue
		}
		op := new(proto.RaftLog)
		if op.Unmarshal(l.Data) != nil {
			continue
		}
		e := vM{"i": i, "op": op.Op.String(), "dig": vC18OpDigest(op)}
		if op.Op == proto.Op_PUBLISH_ACTIVITY {
			e["pub"] = op.PublishActivityOp.RaftIndex
		}
		if op.Op == proto.Op_CREATE_CONSUMER_GROUP && len(op.CreateConsumerGroupOp.ConsumerGroup.Members) == 0 {
			e["op"] = "CREATE_CONSUMER_GROUP_EMPTY"
		}
		out = append(out, e)
	}
	return first, out
}

// vC18ReadActivity reads the activity stream from the start.
func vC18ReadActivity(v *vServer) ([]vM, error) {
	p := v.s.metadata.GetPartition(activityStream, 0)
	if p == nil {
		return nil, fmt.Errorf("no activity partition")
	}
	ctx, cancel := context.WithCancel(context.Background())
	defer cancel()
	sub, st := p.Subscribe(ctx, &client.SubscribeRequest{Stream: activityStream, Partition: 0, StartPosition: client.StartPosition_EARLIEST})
	if st != nil {
		if st.Message() == "Stream is empty" {
			return []vM{}, nil
		}
		return nil, st.Err()
	}
	out := []vM{}
	// read up to the end of the partition's log as it is now; the idle timer only ends the read once
	// that offset has been delivered, or after 3 s without it (then what is missing is in the log
	// but not committed, which the caller reports as such)
	target := p.log.NewestOffset()
	wait := func(last int64) time.Duration {
		if last < target {
			return 3 * time.Second
		}
		return 80 * time.Millisecond
	}
	idle := time.NewTimer(wait(-1))
	for {
		select {
		case m := <-sub.Messages():
			ev := new(client.ActivityStreamEvent)
			if err := pb.Unmarshal(m.Value, ev); err != nil {
				return nil, err
			}
			out = append(out, vM{"id": ev.Id, "op": ev.Op.String(), "off": m.Offset, "dig": vC18EventDigest(ev)})
			if !idle.Stop() {
				select {
				case <-idle.C:
				default:
				}
			}
			idle.Reset(wait(m.Offset))
		case e := <-sub.Errors():
			return out, fmt.Errorf("subscription error: %s", e.Message())
		case <-idle.C:
			cancel()
			sub.Close()
			return out, nil
		}
	}
}

type vC18Case struct {
	soft    [][2]string // findings that do not end the history
	srv     *vServer
	sched   []vM          // what the driver did, with what it saw afterwards
	history map[uint64]vM // every command entry ever seen in the Raft log, by index
	blocked bool
	viol    string
	vsig    string
	stats   map[string]int
}

func (c *vC18Case) violation(sig, what string) {
	if c.viol == "" {
		c.viol, c.vsig = what, sig
	}
	if os.Getenv("VERIF_TRACE") != "" {
		println("TRACE violation", sig, what)
	}
}

func vC18IsEvent(op string) bool {
	switch op {
	case "CREATE_STREAM", "DELETE_STREAM", "PAUSE_STREAM", "RESUME_STREAM", "SET_STREAM_READONLY", "CREATE_CONSUMER_GROUP", "JOIN_CONSUMER_GROUP", "LEAVE_CONSUMER_GROUP":
		return true
	}
	return false
}

// afterRestart: the partitions of a restarted server must come up.  When the snapshot covers the
// whole log nothing is replayed, Apply never runs, finishedRecovery is never called and the
// partitions restored from the snapshot stay un-started: recorded, then recovery is finished by
// hand so that the history can go on.
func (c *vC18Case) afterRestart() {
	if !c.srv.s.config.ActivityStream.Enabled {
		return
	}
	deadline := time.Now().Add(4 * time.Second)
	for time.Now().Before(deadline) {
		p := c.srv.s.metadata.GetPartition(activityStream, 0)
		if p != nil && (p.IsLeader() || p.IsPaused()) {
			return
		}
		time.Sleep(10 * time.Millisecond)
	}
	p := c.srv.s.metadata.GetPartition(activityStream, 0)
	if p == nil {
		return
	}
	first, _ := c.srv.s.getRaft().store.FirstIndex()
	last, _ := c.srv.s.getRaft().store.LastIndex()
	c.soft = append(c.soft, [2]string{"recovered-partitions-never-started",
		fmt.Sprintf("restart with a snapshot that covers the whole log (log store holds %d..%d, no command to replay): 4 s later the activity partition (like every partition restored from the snapshot) has not been started -- finishedRecovery is only called from Apply", first, last)})
	c.stats["finding/recovered-partitions-never-started"]++
	c.srv.s.finishedRecovery(last)
}

func (c *vC18Case) scanLog() {
	_, rl := vC18RaftLog(c.srv.s)
	for _, e := range rl {
		c.history[e["i"].(uint64)] = e
	}
}

func (c *vC18Case) lastEventIndex() uint64 {
	var m uint64
	for i, e := range c.history {
		if vC18IsEvent(e["op"].(string)) && i > m {
			m = i
		}
	}
	return m
}

// settle waits until the dispatcher has recorded the latest event (unless publishes are blocked).
func (c *vC18Case) settle() {
	c.scanLog()
	defer func() {
		// the recorded index names an operation whose event is out: it can never lie beyond the last
		// event-producing operation (a controller that starts resumes right after it)
		if c.srv.s.config.ActivityStream.Enabled {
			if lp, want := c.srv.s.activity.LastPublishedRaftIndex(), c.lastEventIndex(); lp > want {
				c.violation("recorded-index-beyond-events", fmt.Sprintf("the metadata state says activity events are published up to Raft index %d, but the last operation that produces an event is at index %d: a controller starting now would skip whatever is committed up to %d", lp, want, lp))
			}
		}
	}()
	if c.blocked || !c.srv.s.config.ActivityStream.Enabled {
		time.Sleep(30 * time.Millisecond)
		return
	}
	want := c.lastEventIndex()
	deadline := time.Now().Add(12 * time.Second)
	for time.Now().Before(deadline) {
		if c.srv.s.activity.LastPublishedRaftIndex() >= want {
			break
		}
		time.Sleep(5 * time.Millisecond)
	}
	if c.srv.s.activity.LastPublishedRaftIndex() < want {
		c.violation("event-never-published", fmt.Sprintf("operation at Raft index %d was committed; 12 s later (no publish failures injected) the activity stream still ends at %d",
			want, c.srv.s.activity.LastPublishedRaftIndex()))
	}
	c.scanLog()
}

func (c *vC18Case) note(op string, extra vM) {
	first, _ := c.srv.s.getRaft().store.FirstIndex()
	last, _ := c.srv.s.getRaft().store.LastIndex()
	e := vM{"op": op, "first": first, "last": last, "lastpub": c.srv.s.activity.LastPublishedRaftIndex()}
	for k, v := range extra {
		e[k] = v
	}
	c.sched = append(c.sched, e)
	if os.Getenv("VERIF_TRACE") != "" {
		b, _ := json.Marshal(e)
		println("TRACE", string(b))
	}
}

func (c *vC18Case) block(on bool) {
	if p := c.srv.s.metadata.GetPartition(activityStream, 0); p != nil {
		p.log.SetReadonly(on)
		c.blocked = on
	}
}

func TestVerifC18(t *testing.T) {
	out := vOpenOut()
	defer out.close()
	stats := map[string]int{}
	r := vNewRand(vSeed() + 18)
	n := vEnvInt("VERIF_N", 4)
	ctx := context.Background()
	for id := 0; id < n; id++ {
		cfgFn := vC18Config
		if id == 3 {
			// corpus 3: a consumer that joins and then stays silent is removed by the coordinator: the leave is
			// committed with Expired set, and the event has to say so
			cfgFn = func(cfg *Config) { vC18Config(cfg); cfg.Groups.ConsumerTimeout = 300 * time.Millisecond }
		}
		srv := vStartServer(fmt.Sprintf("c18x%d", id), cfgFn)
		c := &vC18Case{srv: srv, history: map[uint64]vM{}, stats: stats}
		c.settle()
		c.note("start", nil)
		nops := 10 + r.intn(14)
		nstream := 0
		quiescent := r.intn(3) > 0
		if id == 0 {
			// corpus: operations, snapshot that compacts the log, restart.  The restart is first done
			// with the dispatcher off so that a lost index is seen as such and not as a crash.
			quiescent = true
			for ; nstream < 3; nstream++ {
				srv.createStream(fmt.Sprintf("a%d", nstream), 1, nil)
				c.note("create", vM{"s": fmt.Sprintf("a%d", nstream), "ok": true})
				c.settle()
			}
			lp := srv.s.activity.LastPublishedRaftIndex()
			rn := srv.s.getRaft()
			rn.ReloadConfig(raft.ReloadableConfig{TrailingLogs: 0, SnapshotInterval: time.Hour, SnapshotThreshold: 1 << 30, HeartbeatTimeout: time.Second, ElectionTimeout: time.Second})
			c.scanLog()
			serr := rn.Snapshot().Error()
			c.note("snapshot", vM{"ok": serr == nil})
			srv.cfg.ActivityStream.Enabled = false
			if e := srv.restart(); e != nil {
				c.violation("restart-failed", e.Error())
			} else if got := srv.s.activity.LastPublishedRaftIndex(); got != lp {
				first, _ := srv.s.getRaft().store.FirstIndex()
				c.violation("lastpub-lost-after-snapshot", fmt.Sprintf("3 operations published and recorded up to index %d, Raft snapshot (log now starts at %d), restart: the last published index is %d; the dispatcher would ask the log store for index %d",
					lp, first, got, got+1))
			}
			srv.cfg.ActivityStream.Enabled = true
			if c.viol == "" {
				if e := srv.restart(); e != nil {
					c.violation("restart-failed", e.Error())
				}
				c.afterRestart()
				c.note("restart", nil)
			}
		}
		// corpus 1: an event waits (publishes fail), snapshot with a long trailing log, restart, publishes work again.
		// corpus 2: one event waits and is being retried, snapshot that compacts its entry, publishes work again.
		var forced []int
		forcedTrailing, forcedRestart := int64(-1), false
		if id == 1 {
			forced, forcedTrailing, forcedRestart = []int{0, 5, 0, 9, 5}, 10240, true
			quiescent = true
		} else if id == 2 {
			forced, forcedTrailing = []int{0, 5, 0, 9, 5}, 0
			quiescent = true
		} else if id == 3 {
			forced = []int{0, 10}
			quiescent = true
			nops = 0
		}
		total := nops + len(forced)
		for j := 0; j < total && c.viol == ""; j++ {
			k := r.pick(10, 4, 4, 4, 5, 3, 3, 3, 2, 3)
			if len(forced) > 0 {
				k = forced[0]
				forced = forced[1:]
			} else {
				forcedTrailing, forcedRestart = -1, false
			}
			var err error
			name := fmt.Sprintf("a%d", r.intn(nstream+1))
			switch k {
			case 0:
				name = fmt.Sprintf("a%d", nstream)
				nstream++
				err = srv.createStream(name, int32(1+r.intn(2)), nil)
				c.note("create", vM{"s": name, "ok": err == nil})
			case 1:
				_, err = srv.api.DeleteStream(ctx, &client.DeleteStreamRequest{Name: name})
				c.note("delete", vM{"s": name, "ok": err == nil})
			case 2:
				_, err = srv.api.PauseStream(ctx, &client.PauseStreamRequest{Name: name})
				c.note("pause", vM{"s": name, "ok": err == nil})
			case 3:
				_, err = srv.api.SetStreamReadonly(ctx, &client.SetStreamReadonlyRequest{Name: name, Readonly: r.intn(2) == 0})
				c.note("readonly", vM{"s": name, "ok": err == nil})
			case 4:
				g, cn := fmt.Sprintf("g%d", r.intn(2)), fmt.Sprintf("c%d", r.intn(3))
				if r.intn(3) > 0 {
					_, err = srv.api.JoinConsumerGroup(ctx, &client.JoinConsumerGroupRequest{GroupId: g, ConsumerId: cn, Streams: []string{name}})
					c.note("join", vM{"g": g, "c": cn, "ok": err == nil})
				} else {
					_, err = srv.api.LeaveConsumerGroup(ctx, &client.LeaveConsumerGroupRequest{GroupId: g, ConsumerId: cn})
					c.note("leave", vM{"g": g, "c": cn, "ok": err == nil})
				}
			case 5:
				// publishes to the activity stream fail for a while (head-of-line blocking, back-off)
				if !c.blocked {
					c.block(true)
					c.note("block", nil)
				} else {
					c.block(false)
					c.note("unblock", nil)
				}
			case 6:
				// controller steps down and is promoted again
				rn := srv.s.getRaft()
				if e := srv.s.leadershipLost(rn); e != nil {
					c.violation("stepdown-failed", e.Error())
				}
				if e := srv.s.leadershipAcquired(rn); e != nil {
					c.violation("promotion-failed", e.Error())
				}
				c.note("leader-change", nil)
			case 7:
				// Raft compacts its log up to the snapshot: entries whose events are not yet published
				// would be gone for good (Raft's trailing-log allowance, 10240 entries, is what
				// protects them in production), so snapshots are taken when the dispatcher has caught up
				if c.blocked {
					continue
				}
				c.settle()
				rn := srv.s.getRaft()
				rn.ReloadConfig(raft.ReloadableConfig{TrailingLogs: uint64(r.intn(3)), SnapshotInterval: time.Hour, SnapshotThreshold: 1 << 30, HeartbeatTimeout: time.Second, ElectionTimeout: time.Second})
				c.scanLog()
				if os.Getenv("VERIF_TRACE") != "" {
					fi, _ := rn.store.FirstIndex()
					la, _ := rn.store.LastIndex()
					for i := fi; i <= la; i++ {
						l := new(raft.Log)
						if rn.store.GetLog(i, l) == nil {
							println("TRACE raft", i, int(l.Type), fmt.Sprint(c.history[i]))
						}
					}
					println("TRACE commit", rn.getCommitIndex(), "lastpub", srv.s.activity.LastPublishedRaftIndex(), "want", c.lastEventIndex())
				}
				serr := rn.Snapshot().Error()
				c.note("snapshot", vM{"ok": serr == nil})
			case 10:
				_, err = srv.api.JoinConsumerGroup(ctx, &client.JoinConsumerGroupRequest{GroupId: "gx", ConsumerId: "silent", Streams: []string{"a0"}})
				c.note("join", vM{"g": "gx", "c": "silent", "ok": err == nil})
				time.Sleep(1200 * time.Millisecond) // four consumer timeouts: the member has been expired
				c.note("wait-for-expiry", nil)
			case 9:
				// a Raft snapshot while events wait to be published. With enough trailing log nothing they
				// need is compacted: a dispatcher that starts later (restart, promotion) finds them in the log.
				// With no trailing log and exactly one event waiting -- the one the dispatcher has read and
				// is retrying, holding the entry in memory -- that event is still published once publishes work.
				if !c.blocked {
					continue
				}
				c.scanLog()
				pending := 0
				lpNow := c.srv.s.activity.LastPublishedRaftIndex()
				for i, e := range c.history {
					if i > lpNow && vC18IsEvent(e["op"].(string)) {
						pending++
					}
				}
				if pending == 0 {
					continue
				}
				time.Sleep(500 * time.Millisecond) // the dispatcher is woken by the commit: it has read the first waiting entry
				trailing := uint64(10240)
				if forcedTrailing == 0 {
					time.Sleep(1500 * time.Millisecond) // the compacting variant (corpus only) depends on that read: be generous
				}
				if forcedTrailing >= 0 {
					trailing = uint64(forcedTrailing)
					if trailing == 0 && pending != 1 {
						continue
					}
				}
				rn := srv.s.getRaft()
				rn.ReloadConfig(raft.ReloadableConfig{TrailingLogs: trailing, SnapshotInterval: time.Hour, SnapshotThreshold: 1 << 30, HeartbeatTimeout: time.Second, ElectionTimeout: time.Second})
				serr := rn.Snapshot().Error()
				c.note("snapshot-while-waiting", vM{"ok": serr == nil, "pending": pending, "trailing": trailing})
				if trailing > 0 && (r.intn(2) == 0 || forcedRestart) {
					c.scanLog()
					if e := srv.restart(); e != nil {
						c.violation("restart-failed", e.Error())
						break
					}
					c.blocked = false
					c.afterRestart()
					c.block(true)
					c.note("restart", nil)
				}
			default:
				c.scanLog()
				wasBlocked := c.blocked
				if e := srv.restart(); e != nil {
					c.violation("restart-failed", e.Error())
					break
				}
				c.blocked = false
				c.afterRestart()
				if wasBlocked {
					c.block(true)
				}
				c.note("restart", nil)
			}
			stats["op/"+c.sched[len(c.sched)-1]["op"].(string)]++
			if quiescent {
				c.settle()
				c.sched[len(c.sched)-1]["lastpub_after"] = c.srv.s.activity.LastPublishedRaftIndex()
			} else {
				c.scanLog()
			}
		}
		if c.blocked {
			c.block(false)
			c.note("unblock", nil)
		}
		if c.viol == "" {
			c.settle()
			time.Sleep(100 * time.Millisecond)
		}
		c.scanLog()
		events, err := vC18ReadActivity(c.srv)
		if err != nil && c.viol == "" {
			c.violation("activity-unreadable", err.Error())
		}
		var hist []vM
		for i := uint64(1); i <= c.lastIndex(); i++ {
			if e, ok := c.history[i]; ok {
				hist = append(hist, e)
			}
		}
		cj := vM{"k": "act", "id": id, "quiescent": quiescent, "sched": c.sched, "raft": hist, "events": events}
		vC18Oracle(c, hist, events)
		if c.viol != "" {
			out.emit(vM{"k": "violation", "sig": c.vsig, "what": c.viol, "case": cj})
		}
		for _, sv := range c.soft {
			out.emit(vM{"k": "violation", "sig": sv[0], "what": sv[1], "case": vM{"k": "act", "id": id, "sched": c.sched}})
		}
		out.emit(cj)
		c.srv.stop()
	}
	out.emit(vM{"k": "stat", "dist": stats})
}

func (c *vC18Case) lastIndex() uint64 {
	var m uint64
	for i := range c.history {
		if i > m {
			m = i
		}
	}
	return m
}

// vC18Oracle: the property's words on (committed operations, delivered events).
// what an event has to say about its operation: names, partitions, flags, group, consumer
func vC18OpDigest(op *proto.RaftLog) string {
	switch op.Op {
	case proto.Op_CREATE_STREAM:
		var ids []int32
		for _, p := range op.CreateStreamOp.Stream.Partitions {
			ids = append(ids, p.Id)
		}
		return fmt.Sprintf("create|%s|%v", op.CreateStreamOp.Stream.Name, ids)
	case proto.Op_DELETE_STREAM:
		return fmt.Sprintf("delete|%s", op.DeleteStreamOp.Stream)
	case proto.Op_PAUSE_STREAM:
		return fmt.Sprintf("pause|%s|%v|%v", op.PauseStreamOp.Stream, op.PauseStreamOp.Partitions, op.PauseStreamOp.ResumeAll)
	case proto.Op_RESUME_STREAM:
		return fmt.Sprintf("resume|%s|%v", op.ResumeStreamOp.Stream, op.ResumeStreamOp.Partitions)
	case proto.Op_SET_STREAM_READONLY:
		return fmt.Sprintf("readonly|%s|%v|%v", op.SetStreamReadonlyOp.Stream, op.SetStreamReadonlyOp.Partitions, op.SetStreamReadonlyOp.Readonly)
	case proto.Op_CREATE_CONSUMER_GROUP:
		if ms := op.CreateConsumerGroupOp.ConsumerGroup.Members; len(ms) > 0 {
			return fmt.Sprintf("join|%s|%s|%v", op.CreateConsumerGroupOp.ConsumerGroup.Id, ms[0].Id, ms[0].Streams)
		}
	case proto.Op_JOIN_CONSUMER_GROUP:
		return fmt.Sprintf("join|%s|%s|%v", op.JoinConsumerGroupOp.GroupId, op.JoinConsumerGroupOp.ConsumerId, op.JoinConsumerGroupOp.Streams)
	case proto.Op_LEAVE_CONSUMER_GROUP:
		return fmt.Sprintf("leave|%s|%s|%v", op.LeaveConsumerGroupOp.GroupId, op.LeaveConsumerGroupOp.ConsumerId, op.LeaveConsumerGroupOp.Expired)
	}
	return ""
}

func vC18EventDigest(ev *client.ActivityStreamEvent) string {
	switch {
	case ev.CreateStreamOp != nil:
		return fmt.Sprintf("create|%s|%v", ev.CreateStreamOp.Stream, ev.CreateStreamOp.Partitions)
	case ev.DeleteStreamOp != nil:
		return fmt.Sprintf("delete|%s", ev.DeleteStreamOp.Stream)
	case ev.PauseStreamOp != nil:
		return fmt.Sprintf("pause|%s|%v|%v", ev.PauseStreamOp.Stream, ev.PauseStreamOp.Partitions, ev.PauseStreamOp.ResumeAll)
	case ev.ResumeStreamOp != nil:
		return fmt.Sprintf("resume|%s|%v", ev.ResumeStreamOp.Stream, ev.ResumeStreamOp.Partitions)
	case ev.SetStreamReadonlyOp != nil:
		return fmt.Sprintf("readonly|%s|%v|%v", ev.SetStreamReadonlyOp.Stream, ev.SetStreamReadonlyOp.Partitions, ev.SetStreamReadonlyOp.Readonly)
	case ev.JoinConsumerGroupOp != nil:
		return fmt.Sprintf("join|%s|%s|%v", ev.JoinConsumerGroupOp.GroupId, ev.JoinConsumerGroupOp.ConsumerId, ev.JoinConsumerGroupOp.Streams)
	case ev.LeaveConsumerGroupOp != nil:
		return fmt.Sprintf("leave|%s|%s|%v", ev.LeaveConsumerGroupOp.GroupId, ev.LeaveConsumerGroupOp.ConsumerId, ev.LeaveConsumerGroupOp.Expired)
	}
	return ""
}

func vC18Oracle(c *vC18Case, hist []vM, events []vM) {
	evOp := map[uint64]string{}
	evDig := map[uint64]string{}
	for _, e := range hist {
		if d, ok := e["dig"].(string); ok {
			evDig[e["i"].(uint64)] = d
		}
	}
	var order []uint64
	for _, e := range hist {
		op := e["op"].(string)
		if vC18IsEvent(op) {
			if op == "CREATE_CONSUMER_GROUP" {
				op = "JOIN_CONSUMER_GROUP"
			}
			evOp[e["i"].(uint64)] = op
			order = append(order, e["i"].(uint64))
		}
	}
	seen := map[uint64]bool{}
	next := 0 // position in order of the first operation not yet delivered
	for _, ev := range events {
		id := ev["id"].(uint64)
		want, ok := evOp[id]
		if !ok {
			c.violation("event-without-operation", fmt.Sprintf("the activity stream carries an event with id %d (%s); no stream or group operation was committed at that Raft index", id, ev["op"]))
			return
		}
		if d, _ := ev["dig"].(string); want == ev["op"].(string) && evDig[id] != "" && d != evDig[id] {
			c.violation("event-payload-differs", fmt.Sprintf("event id %d says %q; the operation committed at that index is %q", id, d, evDig[id]))
			return
		}
		if want != ev["op"].(string) {
			c.violation("event-differs", fmt.Sprintf("event id %d is delivered as %s; the operation committed at that index is %s", id, ev["op"], want))
			return
		}
		if !seen[id] {
			if next < len(order) && order[next] != id {
				c.violation("event-out-of-order", fmt.Sprintf("event id %d appears for the first time before the event of the earlier operation at index %d has appeared at all", id, order[next]))
				return
			}
			seen[id] = true
			next++
		}
	}
	if next < len(order) && c.viol == "" {
		diag := ""
		if p := c.srv.s.metadata.GetPartition(activityStream, 0); p != nil {
			diag = fmt.Sprintf("; activity partition: newest offset %d, high watermark %d, leader %v", p.log.NewestOffset(), p.log.HighWatermark(), p.IsLeader())
		}
		c.violation("event-missing", fmt.Sprintf("the operation committed at Raft index %d (%s) never appears in the activity stream (%d of %d operations delivered)%s", order[next], evOp[order[next]], next, len(order), diag))
	}
	c.stats["events-delivered"] += len(events)
	c.stats["operations"] += len(order)
	if len(events) > len(order) {
		c.stats["histories-with-redelivery"]++
	}
}

func TestVerifC18Explore(t *testing.T) {
	out := vOpenOut()
	defer out.close()
	srv := vStartServer("c18x", vC18Config)
	defer srv.stop()
	ctx := context.Background()
	for i := 0; i < 6; i++ {
		srv.createStream(fmt.Sprintf("a%d", i), 1, nil)
	}
	srv.api.PauseStream(ctx, &client.PauseStreamRequest{Name: "a1"})
	srv.api.DeleteStream(ctx, &client.DeleteStreamRequest{Name: "a2"})
	time.Sleep(500 * time.Millisecond)
	first, rl := vC18RaftLog(srv.s)
	ev, err := vC18ReadActivity(srv)
	out.emit(vM{"k": "explore", "phase": "before", "first": first, "raft": rl, "events": ev, "err": fmt.Sprint(err), "lastpub": srv.s.activity.LastPublishedRaftIndex()})
	// force a snapshot that truncates the log
	rn := srv.s.getRaft()
	err = rn.ReloadConfig(raft.ReloadableConfig{TrailingLogs: 1, SnapshotInterval: time.Hour, SnapshotThreshold: 1 << 30, HeartbeatTimeout: time.Second, ElectionTimeout: time.Second})
	serr := rn.Snapshot().Error()
	first2, _ := rn.store.FirstIndex()
	out.emit(vM{"k": "explore", "phase": "snapshot", "reload": fmt.Sprint(err), "snap": fmt.Sprint(serr), "first": first2})
	// restart with the activity stream disabled so that nothing is dispatched, and look
	srv.cfg.ActivityStream.Enabled = false
	if err := srv.restart(); err != nil {
		t.Fatal(err)
	}
	first3, rl3 := vC18RaftLog(srv.s)
	next := srv.s.activity.LastPublishedRaftIndex() + 1
	l := new(raft.Log)
	gerr := srv.s.getRaft().store.GetLog(next, l)
	out.emit(vM{"k": "explore", "phase": "restarted", "first": first3, "raft": rl3, "lastpub": srv.s.activity.LastPublishedRaftIndex(), "getlog_next": fmt.Sprint(gerr)})
}
