package server

// C19 driver (server level): every way of disabling telemetry, and what an enabled server sends.

import (
	"bytes"
	"fmt"
	"io"
	"net/http"
	"os"
	"path/filepath"
	"sync"
	"testing"
	"time"

	client "github.com/liftbridge-io/liftbridge-api/v2/go"
)

type vHTTPRecorder struct {
	mu     sync.Mutex
	bodies [][]byte
}

func (r *vHTTPRecorder) RoundTrip(req *http.Request) (*http.Response, error) {
	var b []byte
	if req.Body != nil {
		b, _ = io.ReadAll(req.Body)
	}
	r.mu.Lock()
	r.bodies = append(r.bodies, b)
	r.mu.Unlock()
	return &http.Response{StatusCode: 200, Body: io.NopCloser(bytes.NewReader(nil)), Header: http.Header{}}, nil
}

func (r *vHTTPRecorder) snapshot() [][]byte {
	r.mu.Lock()
	defer r.mu.Unlock()
	return append([][]byte{}, r.bodies...)
}

func TestVerifC19Server(t *testing.T) {
	out := vOpenOut()
	defer out.close()
	rec := &vHTTPRecorder{}
	oldT := http.DefaultTransport
	http.DefaultTransport = rec // the collector's http.Client has no Transport of its own
	defer func() { http.DefaultTransport = oldT }()

	dir := filepath.Join(os.Getenv("VERIF_WORK"), "c19cfg")
	os.MkdirAll(dir, 0o755)
	writeCfg := func(name, body string) string {
		p := filepath.Join(dir, name)
		os.WriteFile(p, []byte(body), 0o644)
		return p
	}
	// ---- configuration routes: (file, env) -> resolved switch
	type route struct {
		name string
		file string // "", "none", "true", "false"
		env  string // "", "true", "false"
	}
	var routes []route
	for _, f := range []string{"", "none", "true", "false"} {
		for _, e := range []string{"", "true", "false"} {
			routes = append(routes, route{fmt.Sprintf("file=%s/env=%s", f, e), f, e})
		}
	}
	for _, rt := range routes {
		cfgPath := ""
		switch rt.file {
		case "none":
			cfgPath = writeCfg("none.yaml", "port: 9292\n")
		case "true":
			cfgPath = writeCfg("on.yaml", "telemetry:\n  enabled: true\n")
		case "false":
			cfgPath = writeCfg("off.yaml", "telemetry:\n  enabled: false\n")
		}
		os.Unsetenv("LIFTBRIDGE_TELEMETRY_ENABLED")
		if rt.env != "" {
			os.Setenv("LIFTBRIDGE_TELEMETRY_ENABLED", rt.env)
		}
		cfg, err := NewConfig(cfgPath)
		os.Unsetenv("LIFTBRIDGE_TELEMETRY_ENABLED")
		if err != nil {
			out.emit(vM{"k": "violation", "sig": "config-error", "what": "NewConfig failed for " + rt.name + ": " + err.Error(), "case": vM{"k": "route", "name": rt.name}})
			continue
		}
		out.emit(vM{"k": "route", "name": rt.name, "file": rt.file, "env": rt.env, "enabled": cfg.Telemetry.Enabled})
		wantOff := rt.env == "false" || (rt.env == "" && rt.file == "false")
		if wantOff && cfg.Telemetry.Enabled {
			out.emit(vM{"k": "violation", "sig": "route-ignored:" + rt.name, "what": "telemetry stays enabled although it was disabled through " + rt.name, "case": vM{"k": "route", "name": rt.name}})
		}
	}
	// ---- a server with the switch off makes no request, whatever it hosts
	// (also with the other telemetry settings at values that need repair: a zero or negative interval)
	for i, iv := range []int{1, 0, -3} {
		off := vStartServer(fmt.Sprintf("c19off%d", i), func(c *Config) { c.Telemetry.Enabled = false; c.Telemetry.IntervalSeconds = iv })
		off.createStream("secret-stream-off", 1, nil)
		time.Sleep(300 * time.Millisecond)
		created := off.s.telemetry != nil
		off.stop()
		n := len(rec.snapshot())
		out.emit(vM{"k": "server", "enabled": false, "interval": iv, "requests": n, "collector_created": created})
		if n != 0 || created {
			out.emit(vM{"k": "violation", "sig": "disabled-server-sends", "what": fmt.Sprintf("server with telemetry disabled (interval %d s): %d requests, collector created=%v", iv, n, created), "case": vM{"k": "server", "enabled": false, "interval": iv}})
			break
		}
	}
	// ---- an enabled server: what is in the report
	on := vStartServer("c19on", func(c *Config) {
		c.Telemetry.Enabled = true
		c.Telemetry.IntervalSeconds = 1
		c.NATS.User = ""
	})
	on.createStream("SECRET-STREAM-NAME-51c2", 1, func(r *client.CreateStreamRequest) { r.Subject = "SECRET-SUBJECT-9e0d" })
	deadline := time.Now().Add(5 * time.Second)
	for len(rec.snapshot()) == 0 && time.Now().Before(deadline) {
		time.Sleep(20 * time.Millisecond)
	}
	bodies := rec.snapshot()
	planted := []string{"SECRET-STREAM-NAME-51c2", "SECRET-SUBJECT-9e0d", on.dir, "127.0.0.1", on.s.config.NATS.Servers[0], "c19on"}
	on.stop()
	out.emit(vM{"k": "server", "enabled": true, "requests": len(bodies)})
	if len(bodies) == 0 {
		out.emit(vM{"k": "violation", "sig": "enabled-server-silent", "what": "an enabled server sent no report within 5s (recorder not in the path?)", "case": vM{"k": "server", "enabled": true}})
	}
	for _, b := range bodies {
		for _, s := range planted {
			if bytes.Contains(b, []byte(s)) {
				out.emit(vM{"k": "violation", "sig": "payload-leak", "what": "the telemetry report contains " + s, "case": vM{"k": "payload", "body": string(b)}})
			}
		}
	}
}
