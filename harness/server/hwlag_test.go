package server

// Exploration (not a registered check): after a restart of a partition with replication factor 1,
// does the high watermark cover everything that was acknowledged before the restart?

import (
	"context"
	"fmt"
	"testing"
	"time"

	client "github.com/liftbridge-io/liftbridge-api/v2/go"
)

func TestVerifHWLagExplore(t *testing.T) {
	out := vOpenOut()
	defer out.close()
	srv := vStartServer("hwlag", nil)
	defer srv.stop()
	if err := srv.createStream("h", 1, nil); err != nil {
		t.Fatal(err)
	}
	lagged := 0
	rounds := 30
	for i := 0; i < rounds; i++ {
		ctx, cancel := context.WithTimeout(context.Background(), 5*time.Second)
		_, err := srv.api.Publish(ctx, &client.PublishRequest{Stream: "h", Value: []byte(fmt.Sprintf("m%d", i)), AckPolicy: client.AckPolicy_LEADER})
		cancel()
		if err != nil {
			t.Fatal(err)
		}
		if err := srv.restart(); err != nil {
			t.Fatal(err)
		}
		var p *partition
		for k := 0; k < 400; k++ {
			p = srv.s.metadata.GetPartition("h", 0)
			if p != nil && p.IsLeader() {
				break
			}
			time.Sleep(5 * time.Millisecond)
		}
		time.Sleep(100 * time.Millisecond)
		nw, hw := p.log.NewestOffset(), p.log.HighWatermark()
		if hw < nw {
			lagged++
			out.emit(vM{"k": "explore", "round": i, "newest": nw, "hw": hw, "leader": p.IsLeader()})
		}
	}
	out.emit(vM{"k": "explore", "rounds": rounds, "lagged": lagged})
}
