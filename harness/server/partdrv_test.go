package server

// Simulated peers: one real server "a" leads a partition whose other replicas "b", "c" are
// phantoms (the CREATE_STREAM operation naming them is proposed straight through Raft).  The
// driver plays the followers: it sends ReplicationRequest{ReplicaID, Offset, LeaderEpoch} to the
// partition's replication inbox, so handleReplicationRequest, the replicators, the commit loop and
// the ack path all run for real, with follower progress in the order the case prescribes.

import (
	"bytes"
	"context"
	"encoding/binary"
	"fmt"
	"os"
	"path/filepath"
	"sync"
	"time"

	client "github.com/liftbridge-io/liftbridge-api/v2/go"
	"github.com/nats-io/nats.go"

	"github.com/liftbridge-io/liftbridge/server/commitlog"
	proto "github.com/liftbridge-io/liftbridge/server/protocol"
)

type vPart struct {
	srv    *vServer
	p      *partition
	nc     *nats.Conn
	stream string
	inbox  string
	mu     sync.Mutex
	acks   []*client.Ack
	sub    *nats.Subscription
}

func vPartConfig(minISR int) func(*Config) {
	return func(cfg *Config) {
		cfg.Clustering.ReplicaMaxLagTime = time.Hour
		cfg.Clustering.ReplicaMaxIdleWait = 50 * time.Millisecond
		cfg.Clustering.MinISR = minISR
		cfg.CursorsStream.Partitions = 0
	}
}

// vNewPart creates stream `name` with one partition led by the real server and the given replicas.
func vNewPart(srv *vServer, name string, replicas []string, mod func(*proto.Stream)) (*vPart, error) {
	me := srv.s.config.Clustering.ServerID
	st := &proto.Stream{Name: name, Subject: name, CreationTimestamp: time.Now().UnixNano(), Partitions: []*proto.Partition{{
		Subject: name, Stream: name, Id: 0, ReplicationFactor: int32(len(replicas)),
		Replicas: append([]string{}, replicas...), Isr: append([]string{}, replicas...), Leader: me}}}
	if mod != nil {
		mod(st)
	}
	op := &proto.RaftLog{Op: proto.Op_CREATE_STREAM, CreateStreamOp: &proto.CreateStreamOp{Stream: st}}
	ctx, cancel := context.WithTimeout(context.Background(), 10*time.Second)
	defer cancel()
	f, err := srv.s.getRaft().applyOperation(ctx, op, nil)
	if err != nil {
		return nil, err
	}
	if err := f.Error(); err != nil {
		return nil, err
	}
	p := srv.waitLeader(name, 0)
	nc, err := nats.Connect(srv.cfg.NATS.Servers[0])
	if err != nil {
		return nil, err
	}
	v := &vPart{srv: srv, p: p, nc: nc, stream: name, inbox: fmt.Sprintf("verif.acks.%s", name)}
	v.sub, err = nc.Subscribe(v.inbox, func(m *nats.Msg) {
		if ack, err := proto.UnmarshalAck(m.Data); err == nil {
			v.mu.Lock()
			v.acks = append(v.acks, ack)
			v.mu.Unlock()
		}
	})
	nc.Flush()
	return v, err
}

func (v *vPart) close() {
	v.sub.Unsubscribe()
	v.nc.Close()
}

// publish sends one message to the partition's NATS subject, as the API server does.
func (v *vPart) publish(corr string, key, value []byte, policy client.AckPolicy, expected int64) error {
	msg := &client.Message{Key: key, Value: value, Stream: v.stream, Subject: v.p.Subject, AckInbox: v.inbox,
		CorrelationId: corr, AckPolicy: policy, Offset: expected}
	buf, err := proto.MarshalPublish(msg)
	if err != nil {
		return err
	}
	if err := v.nc.Publish(v.p.Subject, buf); err != nil {
		return err
	}
	return v.nc.Flush()
}

// follower reports that replica has stored everything up to offset.
func (v *vPart) follower(replica string, offset int64) {
	_, epoch := v.p.GetLeader()
	req, _ := proto.MarshalReplicationRequest(&proto.ReplicationRequest{ReplicaID: replica, Offset: offset, LeaderEpoch: epoch})
	v.nc.PublishRequest(v.p.getReplicationRequestInbox(), fmt.Sprintf("verif.repl.%s", replica), req)
	v.nc.Flush()
}

// followerAt sends a replication request stamped with the given leader epoch.
func (v *vPart) followerAt(replica string, offset int64, epoch uint64) {
	req, _ := proto.MarshalReplicationRequest(&proto.ReplicationRequest{ReplicaID: replica, Offset: offset, LeaderEpoch: epoch})
	v.nc.PublishRequest(v.p.getReplicationRequestInbox(), fmt.Sprintf("verif.repl.%s", replica), req)
	v.nc.Flush()
}

// lastCaughtUp: the moment the leader last saw the replica at its log end (zero if it has no replicator).
func (v *vPart) lastCaughtUp(replica string) time.Time {
	v.p.mu.RLock()
	r := v.p.replicators[replica]
	v.p.mu.RUnlock()
	if r == nil {
		return time.Time{}
	}
	r.mu.RLock()
	defer r.mu.RUnlock()
	return r.lastCaughtUp
}

func (v *vPart) isrOffsets() map[string]int64 {
	v.p.mu.RLock()
	defer v.p.mu.RUnlock()
	out := map[string]int64{}
	for r, rep := range v.p.isr {
		out[r] = rep.getLatestOffset()
	}
	return out
}

func (v *vPart) ackCount() int {
	v.mu.Lock()
	defer v.mu.Unlock()
	return len(v.acks)
}

// settle waits until nothing observable has changed for a while.
func (v *vPart) settle() {
	type snap struct {
		newest, hw int64
		acks       int
		isr        string
	}
	take := func() snap {
		return snap{v.p.log.NewestOffset(), v.p.log.HighWatermark(), v.ackCount(), fmt.Sprint(v.isrOffsets())}
	}
	last := take()
	stable := 0
	for i := 0; i < 400 && stable < 6; i++ {
		time.Sleep(3 * time.Millisecond)
		cur := take()
		if cur == last {
			stable++
		} else {
			stable = 0
			last = cur
		}
	}
}

func (v *vPart) shrink(replica string) error {
	leader, epoch := v.p.GetLeader()
	st := v.srv.s.metadata.ShrinkISR(context.Background(), &proto.ShrinkISROp{Stream: v.stream, Partition: 0, ReplicaToRemove: replica, Leader: leader, LeaderEpoch: epoch})
	if st != nil {
		return st.Err()
	}
	return nil
}

func (v *vPart) expand(replica string) error {
	leader, epoch := v.p.GetLeader()
	st := v.srv.s.metadata.ExpandISR(context.Background(), &proto.ExpandISROp{Stream: v.stream, Partition: 0, ReplicaToAdd: replica, Leader: leader, LeaderEpoch: epoch})
	if st != nil {
		return st.Err()
	}
	return nil
}

// ---- the driver as partition leader: the real server follows a phantom leader ----
//
// The phantom leader keeps its log in a real scratch commit log (so that the replication
// responses are built from real stored bytes) and answers leader-epoch-offset requests with the
// last offset whose message belongs to an epoch not above the requested one -- what a follower may
// keep -- computed from its own record of (offset, epoch), not from any epoch cache.

type vSimLeader struct {
	budget  int   // entries the real follower may still be given (a scheduled fetch sets it)
	hwSent  int64 // the HW told to the real follower at its last scheduled fetch
	gated   bool  // serve data only against the budget
	mute    bool  // leader-epoch-offset requests get no answer (the leader is gone before it can reply)
	served  chan int64
	v       *vPart
	name    string
	log     commitlog.CommitLog
	epochs  []uint64 // epoch of the message at each offset
	hw      int64
	epoch   uint64 // the leader epoch it leads in (0 = not leading)
	mu      sync.Mutex
	subs    []*nats.Subscription
	asked   []vM                 // leader-offset requests it answered
	unanswered int
	onFetch func(reported int64) // called (under the lock) when a scheduled fetch arrives, before the HW is read
}

func vNewSimLeader(v *vPart, name string) *vSimLeader {
	dir := filepath.Join(os.Getenv("VERIF_WORK"), fmt.Sprintf("sim_%s_%s_%d", v.stream, name, os.Getpid()))
	os.RemoveAll(dir)
	l, err := commitlog.New(commitlog.Options{Path: dir, Name: "sim", MaxSegmentBytes: 1 << 20, CleanerInterval: time.Hour, HWCheckpointInterval: time.Hour})
	if err != nil {
		panic(err)
	}
	sl := &vSimLeader{v: v, name: name, log: l, hw: -1, hwSent: -1, served: make(chan int64, 16)}
	s1, _ := v.nc.Subscribe(v.p.getLeaderOffsetRequestInbox(), sl.onOffsetRequest)
	s2, _ := v.nc.Subscribe(v.p.getReplicationRequestInbox(), sl.onReplicationRequest)
	sl.subs = []*nats.Subscription{s1, s2}
	v.nc.Flush()
	return sl
}

func (sl *vSimLeader) close() {
	for _, s := range sl.subs {
		s.Unsubscribe()
	}
	sl.log.Close()
}

// appendMsg stores a message of the given epoch in the phantom leader's log.
func (sl *vSimLeader) appendMsg(epoch uint64, value string) int64 {
	return sl.appendKV(epoch, nil, []byte(value))
}

func (sl *vSimLeader) appendKV(epoch uint64, key, value []byte) int64 {
	sl.mu.Lock()
	defer sl.mu.Unlock()
	offs, err := sl.log.Append([]*commitlog.Message{{MagicByte: 1, Timestamp: time.Now().UnixNano(), LeaderEpoch: epoch, Offset: -1, Key: key, Value: value, Headers: map[string][]byte{}}})
	if err != nil {
		panic(err)
	}
	sl.epochs = append(sl.epochs, epoch)
	return offs[0]
}

// lastOffsetUpTo: the last offset whose message belongs to an epoch <= q (-1 if none).
func (sl *vSimLeader) lastOffsetUpTo(q uint64) int64 {
	last := int64(-1)
	for i, e := range sl.epochs {
		if e <= q {
			last = int64(i)
		}
	}
	return last
}

func (sl *vSimLeader) onOffsetRequest(m *nats.Msg) {
	sl.mu.Lock()
	defer sl.mu.Unlock()
	if sl.epoch == 0 || m.Reply == "" {
		return
	}
	if sl.mute {
		sl.unanswered++
		return
	}
	req, err := proto.UnmarshalLeaderEpochOffsetRequest(m.Data)
	if err != nil {
		return
	}
	ans := sl.lastOffsetUpTo(req.LeaderEpoch)
	sl.asked = append(sl.asked, vM{"epoch": req.LeaderEpoch, "answer": ans})
	resp, _ := proto.MarshalLeaderEpochOffsetResponse(&proto.LeaderEpochOffsetResponse{EndOffset: ans})
	m.Respond(resp)
}

func (sl *vSimLeader) onReplicationRequest(m *nats.Msg) {
	sl.mu.Lock()
	defer sl.mu.Unlock()
	if sl.epoch == 0 || m.Reply == "" {
		return
	}
	req, err := proto.UnmarshalReplicationRequest(m.Data)
	if err != nil || req.LeaderEpoch != sl.epoch {
		return
	}
	buf := new(bytes.Buffer)
	proto.WriteReplicationResponseHeader(buf)
	binary.Write(buf, proto.Encoding, sl.epoch)
	newest := sl.log.NewestOffset()
	if sl.gated {
		if sl.budget < 0 {
			// not a scheduled fetch: nothing new, the HW it already knows
			binary.Write(buf, proto.Encoding, sl.hwSent)
			m.Respond(buf.Bytes())
			return
		}
		if lim := req.Offset + int64(sl.budget); lim < newest {
			newest = lim
		}
		sl.budget = -1
		if sl.onFetch != nil {
			sl.onFetch(req.Offset)
		}
		sl.hwSent = sl.hw
		defer func() { sl.served <- req.Offset }()
	}
	binary.Write(buf, proto.Encoding, sl.hw)
	if req.Offset < newest {
		rd, err := sl.log.NewReader(req.Offset+1, true)
		if err == nil {
			hb := make([]byte, 28)
			for off := req.Offset; off < newest; {
				ctx, cancel := context.WithCancel(context.Background())
				cancel()
				msg, o, _, _, err := rd.ReadMessage(ctx, hb)
				if err != nil {
					break
				}
				buf.Write(hb)
				buf.Write(msg)
				off = o
			}
		}
	}
	m.Respond(buf.Bytes())
}

// lead makes the phantom the partition leader (through Raft) in a new epoch and returns it.
func (sl *vSimLeader) lead() (uint64, error) {
	op := &proto.RaftLog{Op: proto.Op_CHANGE_LEADER, ChangeLeaderOp: &proto.ChangeLeaderOp{Stream: sl.v.stream, Partition: 0, Leader: sl.name}}
	ctx, cancel := context.WithTimeout(context.Background(), 10*time.Second)
	defer cancel()
	sl.mu.Lock()
	sl.epoch = 1 << 62 // answer requests as leader from now on; the real epoch is set below
	sl.budget = -1
	sl.mu.Unlock()
	f, err := sl.v.srv.s.getRaft().applyOperation(ctx, op, nil)
	if err != nil {
		return 0, err
	}
	if err := f.Error(); err != nil {
		return 0, err
	}
	_, epoch := sl.v.srv.s.metadata.GetPartition(sl.v.stream, 0).GetLeader()
	sl.mu.Lock()
	sl.epoch = epoch
	sl.mu.Unlock()
	return epoch, nil
}

// handBack makes the real server the leader again.
func (sl *vSimLeader) handBack() (uint64, error) {
	sl.mu.Lock()
	sl.epoch = 0
	sl.mu.Unlock()
	me := sl.v.srv.s.config.Clustering.ServerID
	op := &proto.RaftLog{Op: proto.Op_CHANGE_LEADER, ChangeLeaderOp: &proto.ChangeLeaderOp{Stream: sl.v.stream, Partition: 0, Leader: me}}
	ctx, cancel := context.WithTimeout(context.Background(), 10*time.Second)
	defer cancel()
	f, err := sl.v.srv.s.getRaft().applyOperation(ctx, op, nil)
	if err != nil {
		return 0, err
	}
	if err := f.Error(); err != nil {
		return 0, err
	}
	sl.v.p = sl.v.srv.waitLeader(sl.v.stream, 0)
	_, epoch := sl.v.p.GetLeader()
	return epoch, nil
}

// wakeFollower tells the real server that the partition has new data (what a leader does).
func (sl *vSimLeader) wakeFollower() {
	me := sl.v.srv.s.config.Clustering.ServerID
	data, _ := proto.MarshalPartitionNotification(&proto.PartitionNotification{Stream: sl.v.stream, Partition: 0})
	sl.v.nc.Publish(sl.v.srv.s.getPartitionNotificationInbox(me), data)
	sl.v.nc.Flush()
}

// vLogDump reads a partition's log: offset, leader epoch and value of every message.
func vLogDump(p *partition) []vM {
	out := []vM{}
	first := p.log.OldestOffset()
	if first < 0 {
		return out
	}
	rd, err := p.log.NewReader(first, true)
	if err != nil {
		return out
	}
	hb := make([]byte, 28)
	for {
		ctx, cancel := context.WithCancel(context.Background())
		cancel()
		m, off, _, ep, err := rd.ReadMessage(ctx, hb)
		if err != nil {
			return out
		}
		out = append(out, vM{"off": off, "ep": ep, "v": string(m.Value())})
	}
}
