package server

// Simulated peers: one real server "a" leads a partition whose other replicas "b", "c" are
// phantoms (the CREATE_STREAM operation naming them is proposed straight through Raft).  The
// driver plays the followers: it sends ReplicationRequest{ReplicaID, Offset, LeaderEpoch} to the
// partition's replication inbox, so handleReplicationRequest, the replicators, the commit loop and
// the ack path all run for real, with follower progress in the order the case prescribes.

import (
	"context"
	"fmt"
	"sync"
	"time"

	client "github.com/liftbridge-io/liftbridge-api/v2/go"
	"github.com/nats-io/nats.go"

	proto "github.com/liftbridge-io/liftbridge/server/protocol"
)

type vPart struct {
	srv    *vServer
	p      *partition
	nc     *nats.Conn
	stream string
	inbox  string
	mu     sync.Mutex
	acks   []*client.Ack
	sub    *nats.Subscription
}

func vPartConfig(minISR int) func(*Config) {
	return func(cfg *Config) {
		cfg.Clustering.ReplicaMaxLagTime = time.Hour
		cfg.Clustering.ReplicaMaxIdleWait = 50 * time.Millisecond
		cfg.Clustering.MinISR = minISR
		cfg.CursorsStream.Partitions = 0
	}
}

// vNewPart creates stream `name` with one partition led by the real server and the given replicas.
func vNewPart(srv *vServer, name string, replicas []string, mod func(*proto.Stream)) (*vPart, error) {
	me := srv.s.config.Clustering.ServerID
	st := &proto.Stream{Name: name, Subject: name, CreationTimestamp: time.Now().UnixNano(), Partitions: []*proto.Partition{{
		Subject: name, Stream: name, Id: 0, ReplicationFactor: int32(len(replicas)),
		Replicas: append([]string{}, replicas...), Isr: append([]string{}, replicas...), Leader: me}}}
	if mod != nil {
		mod(st)
	}
	op := &proto.RaftLog{Op: proto.Op_CREATE_STREAM, CreateStreamOp: &proto.CreateStreamOp{Stream: st}}
	ctx, cancel := context.WithTimeout(context.Background(), 10*time.Second)
	defer cancel()
	f, err := srv.s.getRaft().applyOperation(ctx, op, nil)
	if err != nil {
		return nil, err
	}
	if err := f.Error(); err != nil {
		return nil, err
	}
	p := srv.waitLeader(name, 0)
	nc, err := nats.Connect(srv.cfg.NATS.Servers[0])
	if err != nil {
		return nil, err
	}
	v := &vPart{srv: srv, p: p, nc: nc, stream: name, inbox: fmt.Sprintf("verif.acks.%s", name)}
	v.sub, err = nc.Subscribe(v.inbox, func(m *nats.Msg) {
		if ack, err := proto.UnmarshalAck(m.Data); err == nil {
			v.mu.Lock()
			v.acks = append(v.acks, ack)
			v.mu.Unlock()
		}
	})
	nc.Flush()
	return v, err
}

func (v *vPart) close() {
	v.sub.Unsubscribe()
	v.nc.Close()
}

// publish sends one message to the partition's NATS subject, as the API server does.
func (v *vPart) publish(corr string, key, value []byte, policy client.AckPolicy, expected int64) error {
	msg := &client.Message{Key: key, Value: value, Stream: v.stream, Subject: v.p.Subject, AckInbox: v.inbox,
		CorrelationId: corr, AckPolicy: policy, Offset: expected}
	buf, err := proto.MarshalPublish(msg)
	if err != nil {
		return err
	}
	if err := v.nc.Publish(v.p.Subject, buf); err != nil {
		return err
	}
	return v.nc.Flush()
}

// follower reports that replica has stored everything up to offset.
func (v *vPart) follower(replica string, offset int64) {
	_, epoch := v.p.GetLeader()
	req, _ := proto.MarshalReplicationRequest(&proto.ReplicationRequest{ReplicaID: replica, Offset: offset, LeaderEpoch: epoch})
	v.nc.PublishRequest(v.p.getReplicationRequestInbox(), fmt.Sprintf("verif.repl.%s", replica), req)
	v.nc.Flush()
}

func (v *vPart) isrOffsets() map[string]int64 {
	v.p.mu.RLock()
	defer v.p.mu.RUnlock()
	out := map[string]int64{}
	for r, rep := range v.p.isr {
		out[r] = rep.getLatestOffset()
	}
	return out
}

func (v *vPart) ackCount() int {
	v.mu.Lock()
	defer v.mu.Unlock()
	return len(v.acks)
}

// settle waits until nothing observable has changed for a while.
func (v *vPart) settle() {
	type snap struct {
		newest, hw int64
		acks       int
		isr        string
	}
	take := func() snap {
		return snap{v.p.log.NewestOffset(), v.p.log.HighWatermark(), v.ackCount(), fmt.Sprint(v.isrOffsets())}
	}
	last := take()
	stable := 0
	for i := 0; i < 400 && stable < 6; i++ {
		time.Sleep(3 * time.Millisecond)
		cur := take()
		if cur == last {
			stable++
		} else {
			stable = 0
			last = cur
		}
	}
}

func (v *vPart) shrink(replica string) error {
	leader, epoch := v.p.GetLeader()
	st := v.srv.s.metadata.ShrinkISR(context.Background(), &proto.ShrinkISROp{Stream: v.stream, Partition: 0, ReplicaToRemove: replica, Leader: leader, LeaderEpoch: epoch})
	if st != nil {
		return st.Err()
	}
	return nil
}

func (v *vPart) expand(replica string) error {
	leader, epoch := v.p.GetLeader()
	st := v.srv.s.metadata.ExpandISR(context.Background(), &proto.ExpandISROp{Stream: v.stream, Partition: 0, ReplicaToAdd: replica, Leader: leader, LeaderEpoch: epoch})
	if st != nil {
		return st.Err()
	}
	return nil
}
