package server

// Shared helpers of the /verif server-level drivers: an in-process single-node server with an
// embedded NATS server on a free port and a scratch data directory.

import (
	"context"
	"fmt"
	"net"
	"os"
	"path/filepath"
	"time"

	client "github.com/liftbridge-io/liftbridge-api/v2/go"
)

func vFreePort() int {
	l, err := net.Listen("tcp", "127.0.0.1:0")
	if err != nil {
		panic(err)
	}
	defer l.Close()
	return l.Addr().(*net.TCPAddr).Port
}

type vServer struct {
	s   *Server
	dir string
	api *apiServer
	cfg *Config
}

// vStartServer starts a bootstrap single-node server; mod may adjust the configuration.
func vStartServer(name string, mod func(*Config)) *vServer {
	dir := filepath.Join(os.Getenv("VERIF_WORK"), fmt.Sprintf("srv_%s_%d", name, os.Getpid()))
	os.RemoveAll(dir)
	os.MkdirAll(dir, 0o755)
	natsPort := vFreePort()
	natsConf := filepath.Join(dir, "nats.conf")
	os.WriteFile(natsConf, []byte(fmt.Sprintf("host: 127.0.0.1\nport: %d\n", natsPort)), 0o644)
	cfg := NewDefaultConfig()
	cfg.Clustering.RaftBootstrapSeed = true
	cfg.Clustering.ServerID = name
	cfg.Clustering.Namespace = fmt.Sprintf("verif-%d-%s", os.Getpid(), name)
	cfg.DataDir = filepath.Join(dir, "data")
	cfg.EmbeddedNATS = true
	cfg.EmbeddedNATSConfig = natsConf
	cfg.NATS.Servers = []string{fmt.Sprintf("nats://127.0.0.1:%d", natsPort)}
	cfg.LogSilent = os.Getenv("VERIF_LOG") == ""
	cfg.Host = "127.0.0.1"
	cfg.Port = vFreePort()
	cfg.Telemetry.Enabled = false
	cfg.Clustering.RaftSnapshots = 1
	if mod != nil {
		mod(cfg)
	}
	s, err := RunServerWithConfig(cfg)
	if err != nil {
		panic(fmt.Sprintf("server start failed: %v", err))
	}
	deadline := time.Now().Add(15 * time.Second)
	for time.Now().Before(deadline) {
		if s.IsRunning() && s.getRaft() != nil && s.IsLeader() {
			break
		}
		time.Sleep(10 * time.Millisecond)
	}
	if !s.IsLeader() {
		panic("single-node server did not become metadata leader")
	}
	return &vServer{s: s, dir: dir, api: &apiServer{Server: s}, cfg: cfg}
}

// restart stops the server and starts it again on the same data directory.
func (v *vServer) restart() error {
	done := make(chan struct{})
	go func() { v.s.Stop(); close(done) }()
	select {
	case <-done:
	case <-time.After(20 * time.Second):
		return fmt.Errorf("server did not stop")
	}
	s, err := RunServerWithConfig(v.cfg)
	if err != nil {
		return err
	}
	deadline := time.Now().Add(15 * time.Second)
	for time.Now().Before(deadline) {
		if s.IsRunning() && s.getRaft() != nil && s.IsLeader() {
			break
		}
		time.Sleep(10 * time.Millisecond)
	}
	if !s.IsLeader() {
		return fmt.Errorf("restarted server did not become metadata leader")
	}
	v.s, v.api = s, &apiServer{Server: s}
	return nil
}

func (v *vServer) stop() {
	done := make(chan struct{})
	go func() { v.s.Stop(); close(done) }()
	select {
	case <-done:
	case <-time.After(20 * time.Second):
	}
	os.RemoveAll(v.dir)
}

func (v *vServer) createStream(name string, partitions int32, mod func(*client.CreateStreamRequest)) error {
	req := &client.CreateStreamRequest{Subject: name, Name: name, Partitions: partitions}
	if mod != nil {
		mod(req)
	}
	ctx, cancel := context.WithTimeout(context.Background(), 10*time.Second)
	defer cancel()
	_, err := v.api.CreateStream(ctx, req)
	return err
}

// waitLeader waits until this server leads the partition.
func (v *vServer) waitLeader(stream string, part int32) *partition {
	deadline := time.Now().Add(10 * time.Second)
	for time.Now().Before(deadline) {
		p := v.s.metadata.GetPartition(stream, part)
		if p != nil && p.IsLeader() {
			return p
		}
		time.Sleep(5 * time.Millisecond)
	}
	panic("partition has no leader: " + stream)
}
