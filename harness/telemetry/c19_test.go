package telemetry

// C19 driver (collector level): the HTTP transport is replaced by a recorder.

import (
	"fmt"
	"strings"
	"regexp"
	"bytes"
	"encoding/json"
	"io"
	"net/http"
	"os"
	"path/filepath"
	"sort"
	"sync"
	"testing"
	"time"

	"github.com/liftbridge-io/liftbridge/server/logger"
)

type vRecorder struct {
	mu     sync.Mutex
	bodies [][]byte
	urls   []string
}

func (r *vRecorder) RoundTrip(req *http.Request) (*http.Response, error) {
	var b []byte
	if req.Body != nil {
		b, _ = io.ReadAll(req.Body)
	}
	r.mu.Lock()
	r.bodies = append(r.bodies, b)
	r.urls = append(r.urls, req.URL.String())
	r.mu.Unlock()
	return &http.Response{StatusCode: 200, Body: io.NopCloser(bytes.NewReader(nil)), Header: http.Header{}}, nil
}

func (r *vRecorder) count() int {
	r.mu.Lock()
	defer r.mu.Unlock()
	return len(r.bodies)
}

func vKeyPaths(v interface{}, prefix string, out *[]string) {
	if m, ok := v.(map[string]interface{}); ok {
		for k, x := range m {
			*out = append(*out, prefix+k)
			vKeyPaths(x, prefix+k+".", out)
		}
	}
}

func TestVerifC19Collector(t *testing.T) {
	out := vOpenOut()
	defer out.close()
	lg := logger.NewLogger(0)
	lg.Silent(true)
	base := filepath.Join(os.Getenv("VERIF_WORK"), "tel")
	os.RemoveAll(base)
	// life cycles with the switch off: start / wait over several intervals / stop, repeated
	for i, evs := range [][]string{{"start", "tick", "stop"}, {"start", "stop", "start", "tick", "tick", "stop"}, {"tick", "start", "tick", "stop"}} {
		rec := &vRecorder{}
		c, err := New(&Config{Enabled: false, Interval: 5 * time.Millisecond, DataDir: filepath.Join(base, "off")}, "v-test", lg)
		if err != nil {
			t.Fatal(err)
		}
		c.client = &http.Client{Transport: rec}
		for _, e := range evs {
			switch e {
			case "start":
				c.Start()
			case "tick":
				time.Sleep(25 * time.Millisecond)
			case "stop":
				c.Stop()
				// a stopped collector has a cancelled context; a fresh one models a restart
				c, _ = New(&Config{Enabled: false, Interval: 5 * time.Millisecond, DataDir: filepath.Join(base, "off")}, "v-test", lg)
				c.client = &http.Client{Transport: rec}
			}
		}
		c.Stop()
		out.emit(vM{"k": "life", "id": i, "enabled": false, "events": evs, "requests": rec.count()})
		if rec.count() != 0 {
			out.emit(vM{"k": "violation", "sig": "disabled-sends", "what": "a collector with Enabled=false made HTTP requests", "case": vM{"k": "life", "events": evs}})
		}
	}
	// enabled: at least the initial beacon; payload keys and planted strings
	secretDir := filepath.Join(base, "SECRET-DATA-DIR-7f3a")
	rec := &vRecorder{}
	c, err := New(&Config{Enabled: true, Interval: 10 * time.Millisecond, DataDir: secretDir}, "v-test", lg)
	if err != nil {
		t.Fatal(err)
	}
	c.client = &http.Client{Transport: rec}
	c.Start()
	time.Sleep(60 * time.Millisecond)
	c.Stop()
	n := rec.count()
	out.emit(vM{"k": "life", "id": 99, "enabled": true, "events": []string{"start", "tick", "stop"}, "requests": n})
	if n == 0 {
		out.emit(vM{"k": "violation", "sig": "enabled-silent", "what": "an enabled collector sent nothing (the recorder is not in the path?)", "case": vM{"k": "life"}})
	}
	for _, b := range rec.bodies {
		var v interface{}
		if err := json.Unmarshal(b, &v); err != nil {
			out.emit(vM{"k": "violation", "sig": "payload-not-json", "what": "telemetry body is not JSON", "case": vM{"k": "payload", "body": string(b)}})
			continue
		}
		var keys []string
		vKeyPaths(v, "", &keys)
		sort.Strings(keys)
		out.emit(vM{"k": "payload", "keys": keys, "body": string(b)})
		if bytes.Contains(b, []byte("SECRET-DATA-DIR-7f3a")) {
			out.emit(vM{"k": "violation", "sig": "payload-leaks-datadir", "what": "the telemetry body contains the data directory", "case": vM{"k": "payload", "body": string(b)}})
		}
		break
	}
	// the instance id: random (UUID v4), also when it cannot be saved -- then no collector at all, or
	// a collector whose id is still random; never something derived from the host or the configuration
	host, _ := os.Hostname()
	uuidRe := regexp.MustCompile(`^[0-9a-f]{8}-[0-9a-f]{4}-4[0-9a-f]{3}-[89ab][0-9a-f]{3}-[0-9a-f]{12}$`)
	checkID := func(scenario string, body []byte, dirName string) {
		var v map[string]interface{}
		if json.Unmarshal(body, &v) != nil {
			return
		}
		id, _ := v["instance_id"].(string)
		if !uuidRe.MatchString(id) || (host != "" && strings.Contains(id, host)) || strings.Contains(id, dirName) {
			out.emit(vM{"k": "violation", "sig": "instance-id-not-random", "what": fmt.Sprintf("%s: the report's instance_id is %q, not a random UUID (host %q, data directory %q)", scenario, id, host, dirName),
				"case": vM{"k": "payload", "body": string(body)}})
		}
	}
	for _, b := range rec.bodies {
		checkID("fresh data directory", b, "SECRET-DATA-DIR-7f3a")
		break
	}
	for i, fault := range []string{"id-file-is-a-directory", "data-dir-is-a-file"} {
		dirName := fmt.Sprintf("acme-payments-%d", i)
		dd := filepath.Join(base, dirName)
		os.RemoveAll(dd)
		switch fault {
		case "id-file-is-a-directory":
			os.MkdirAll(filepath.Join(dd, instanceIDFile), 0o755)
		case "data-dir-is-a-file":
			os.MkdirAll(base, 0o755)
			os.WriteFile(dd, []byte("x"), 0o644)
		}
		rec2 := &vRecorder{}
		c2, err := New(&Config{Enabled: true, Interval: 10 * time.Millisecond, DataDir: dd}, "v-test", lg)
		out.emit(vM{"k": "idfault", "fault": fault, "collector": err == nil})
		if err != nil || c2 == nil {
			continue
		}
		c2.client = &http.Client{Transport: rec2}
		c2.Start()
		time.Sleep(40 * time.Millisecond)
		c2.Stop()
		for _, b := range rec2.bodies {
			checkID(fault, b, dirName)
			break
		}
	}
	for _, u := range rec.urls {
		if u != DefaultEndpoint {
			out.emit(vM{"k": "violation", "sig": "other-endpoint", "what": "request to " + u, "case": vM{"k": "payload"}})
		}
	}
}
