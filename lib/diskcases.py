"""Translate the histories of the C05 driver (harness/commitlog/c05_test.go) into Coq case files
for Log/DiskCheck.v and evaluate them."""
import re
from vcommon import coq_bool, coq_N
from logcases import c_op, c_msg, c_rec, c_list, cz

PNAME = {
    "segment:log-created": "PSegLogCreated", "split:segment-created": "PSplitCreated",
    "append:epochs-assigned": "PEpochsAssigned", "append:log-written": "PLogWritten", "append:index-written": "PIndexWritten",
    "truncate:tail-deleted": "PTailDeleted", "truncate:copy-written": "PTruncCopy", "truncate:replaced": "PTruncReplaced",
    "replace:closed": "PReplClosed", "replace:log-renamed": "PReplLogRenamed", "replace:index-renamed": "PReplIdxRenamed",
    "delete:log-removed": "PDelLogRemoved", "clean:deleting-segment": "PCleanDeleting", "compact:copy-written": "PCompactCopy",
    "clean:cleaned": "PCleanCleaned",
    "open:orphan-index-removed": "POrphanRemoved", "rebuild:index-removed": "PRebuildRemoved", "rebuild:index-created": "PRebuildCreated",
    "rebuild:entry-written": "PRebuildEntry", "open:epochs-trimmed": "PEpochsTrimmed",
}
HW_FILE = "replication-offset-checkpoint"
EPOCH_FILE = "leader-epoch-checkpoint"


class Untranslatable(Exception):
    pass


def c_pts(pts):
    return c_list([PNAME[p] for p in (pts or [])])


def parse_disk(files, torn=None):
    """-> (list of fobs terms, hw, epochs). torn: the driver's description of a torn write (the junk after the
    last whole frame of that log file, or the visible partial entry at the end of that index, is not listed)."""
    fobs, hw, ep = [], -1, []
    for f in files:
        name = f["name"]
        if name == HW_FILE:
            hw = int(f.get("text") or "-1")
            continue
        if name == EPOCH_FILE:
            parts = [x for x in (f.get("text") or "").split(";") if x]
            ep = [tuple(int(y) for y in x.split()) for x in parts[2:]]
            continue
        m = re.match(r"^(\d{20})\.(log|index)(?:\.(cleaned|truncated))?$", name)
        if not m:
            raise Untranslatable("unexpected file %r in the log directory" % name)
        base = int(m.group(1))
        suf = {None: "None", "cleaned": "(Some SClean)", "truncated": "(Some STrunc)"}[m.group(3)]
        if m.group(2) == "log":
            if f.get("tail") and not (torn and torn["file"] == name and torn["z"] == f["tail"]):
                raise Untranslatable("log file %s ends in %d bytes that are not a whole frame" % (name, f["tail"]))
            fobs.append("OLog %s %s %s" % (cz(base), suf, c_list([cz(x) for x in (f.get("offs") or [])])))
        else:
            ents = f.get("entries") or []
            if torn and torn["file"] == name and torn.get("visible"):
                if not ents or ents[-1][1] + ents[-1][2] != torn["z"]:
                    raise Untranslatable("index file %s does not end in the partial entry the driver describes" % name)
                ents = ents[:-1]
            fobs.append("OIdx %s %s %s" % (cz(base), suf, c_list(["(%s, %s, %s)" % (cz(a), cz(b), cz(c)) for a, b, c in ents])))
    return fobs, hw, ep


def c_eps(ep):
    return c_list(["(%s, %s)" % (coq_N(e), cz(o)) for e, o in ep])


def c_intent(i):
    k = i["op"]
    if k == "create":
        return "DCreate"
    if k == "append":
        return "DAppend %s" % c_list([c_msg(m) for m in i["msgs"]])
    if k == "aset":
        return "DASet %s" % c_list([c_rec(r) for r in i["recs"]])
    if k == "trunc":
        return "DTrunc %s" % cz(i["o"])
    if k in ("clean", "cleanc"):
        return "DClean %s" % cz(i["ttl"])
    if k == "reopen":
        return "DReopen"
    raise Untranslatable("intent " + k)


def c_dlop(o):
    k = o["op"]
    if k == "epoch":
        return "XEpoch %s" % coq_N(o["e"])
    if k == "ckpt":
        return "XCkpt"
    if k == "crash" and o.get("torn"):
        t = o["torn"]
        fobs, hw, ep = parse_disk(o["disk"], t)
        z = "None" if (t["z"] < 0 or (t["z"] == 0 and ".log" in t["file"])) else "(Some %s)" % cz(t["z"])
        return "XTorn (%s) %d %s %d %s %s %s %s %s %s %s %s %s" % (
            c_intent(o["intent"]), o["k"], PNAME[o["point"].split("~")[0]], t["k"], z, c_list(fobs), cz(hw), c_eps(ep),
            c_list([cz(x) for x in (o.get("offs") or [])]), cz(o["newest"]), cz(o["oldest"]), cz(o["hw"]),
            c_eps(o.get("cache") or []))
    if k == "crash" and o.get("rec"):
        lv1 = "None"
        if o["k"] > 0:
            fobs, hw, ep = parse_disk(o["disk"])
            lv1 = "(Some (%s, %s, %s))" % (c_list(fobs), cz(hw), c_eps(ep))
        recs = []
        for lv in o["rec"]:
            fobs, hw, ep = parse_disk(lv["disk"])
            recs.append("(%d%%nat, %s, (%s, %s, %s))" % (lv["j"], PNAME[lv["point"]], c_list(fobs), cz(hw), c_eps(ep)))
        return "XCrashR (%s) %d %s %s %s %s %s %s %s %s" % (
            c_intent(o["intent"]), o["k"], PNAME[o["point"]] if o["k"] > 0 else "PEpochsTrimmed", lv1, c_list(recs),
            c_list([cz(x) for x in (o.get("offs") or [])]), cz(o["newest"]), cz(o["oldest"]), cz(o["hw"]),
            c_eps(o.get("cache") or []))
    if k == "crash":
        fobs, hw, ep = parse_disk(o["disk"])
        return "XCrash (%s) %d %s %s %s %s %s %s %s %s %s" % (
            c_intent(o["intent"]), o["k"], PNAME[o["point"]], c_list(fobs), cz(hw), c_eps(ep),
            c_list([cz(x) for x in (o.get("offs") or [])]), cz(o["newest"]), cz(o["oldest"]), cz(o["hw"]),
            c_eps(o.get("cache") or []))
    return "XOp (%s) %s" % (c_op(o), c_pts(o.get("pts")))


def drop_cut_reopens(ops):
    """A reopen whose commitlog.New died is recorded as the operation followed by the crash: the crash stands for both."""
    out = []
    for i, o in enumerate(ops):
        nxt = ops[i + 1] if i + 1 < len(ops) else None
        if o["op"] == "reopen" and nxt is not None and nxt["op"] == "crash" and nxt["intent"]["op"] == "reopen":
            continue
        out.append(o)
    return out


def c_dcase(c):
    return "{| dc_p := mkP %s (mkLimits %s %s 0) %s; dc_create_crash := %s; dc_ops := [\n   %s] |}" % (
        cz(c["maxb"]), cz(c.get("ret_bytes", 0)), cz(c.get("ret_msgs", 0)), coq_bool(c["compact"]), coq_bool(c["create_crash"]),
        ";\n   ".join(c_dlop(o) for o in c["ops"]))


def eval_disk_cases(ctx, cases, tag, shard=40):
    """Returns (list of (case, op index) that disagree with the model, number of shards)."""
    jobs = []
    for c in cases:
        c["ops"] = drop_cut_reopens(c["ops"])
    for s in range(0, len(cases), shard):
        part = cases[s:s + shard]
        txt = "From LB Require Import Base.Prelude Log.Model Log.Retention Log.Compact Api.Range Log.Check Log.Disk Log.DiskTear Log.DiskRecover Log.DiskCheck.\nOpen Scope Z_scope.\n"
        sentinel = "{| dc_p := mkP 100 (mkLimits 0 0 0) false; dc_create_crash := false; dc_ops := [XOp (LState 12345 0 0) []] |}"
        txt += "Definition CS : list dcase := [\n %s].\n" % ";\n ".join([c_dcase(c) for c in part] + [sentinel])
        txt += "Definition M := Eval vm_compute in dcases_mismatches CS 0.\nPrint M.\n"
        jobs.append((("dcases_%s_%d" % (tag, len(jobs)), txt), part))
    outs = ctx.coq_eval_many([j[0] for j in jobs], jobs=14)
    mism = []
    for out, (_, part) in zip(outs, jobs):
        if out is None:
            continue
        m = re.search(r"M\s*=\s*(.*?)\n\s*:", out, re.S)
        if not m:
            ctx.tie_problems.append({"what": "could not parse the model's answer", "detail": out[-500:]})
            continue
        pairs = [(int(a), int(b)) for a, b in re.findall(r"\(\s*(\d+)(?:%nat)?\s*,\s*(\d+)(?:%nat)?\s*\)", m.group(1))]
        if (len(part), 0) not in pairs:
            ctx.tie_problems.append({"what": "the model evaluation did not report the sentinel mismatch: its answer cannot be trusted", "detail": out[-300:]})
        for a, b in pairs:
            if a < len(part):
                mism.append((part[a], b))
    return mism, len(jobs)
