"""Translate observed log histories (harness/commitlog/logdrv_test.go) into Coq case files
for Log/Check.v and evaluate them."""
import re
from vcommon import coq_bytes, coq_bool, coq_N


def cz(n):
    return "(%d)" % n


def c_msg(m):
    return "mkMsg %s %s %s %s" % (cz(m["ts"]), coq_N(m["ep"]), coq_bytes(m["body"]), cz(m["exp"]))


def c_rec(r):
    return "mkRec %s %s %s %s" % (cz(r["off"]), cz(r["ts"]), coq_N(r["ep"]), coq_bytes(r["body"]))


def c_list(xs):
    return "[" + "; ".join(xs) + "]"


def c_op(o):
    k = o["op"]
    if k == "append":
        return "LAppend %s %s %s" % (c_list([c_msg(m) for m in o["msgs"]]), coq_N(o["res"]), c_list([cz(x) for x in (o.get("offs") or [])]))
    if k == "aset":
        return "LASet %s %s %s" % (c_list([c_rec(m) for m in o["recs"]]), coq_N(o["res"]), c_list([cz(x) for x in (o.get("offs") or [])]))
    if k == "trunc":
        return "LTrunc %s" % cz(o["o"])
    if k == "reopen":
        return "LReopen"
    if k == "hw":
        return "LHw %s" % cz(o["h"])
    if k == "ro":
        return "LRo %s" % coq_bool(o["b"])
    if k == "read":
        return "LRead %s %s %s %s" % (coq_bool(o["unc"]), cz(o["o"]), c_list([c_rec(r) for r in (o.get("recs") or [])]), coq_N(o["end"]))
    if k == "state":
        return "LState %s %s %s" % (cz(o["newest"]), cz(o["oldest"]), cz(o["hw"]))
    if k == "ropen":
        return "LROpen %d %s %s %s" % (o["id"], coq_bool(o["unc"]), cz(o["o"]), coq_bool(o["ok"]))
    if k == "rnext":
        return "LRNext %d %s %s" % (o["id"], c_list([c_rec(r) for r in (o.get("recs") or [])]), coq_N(o["end"]))
    if k == "hwset":
        return "LHwSet %s" % cz(o["h"])
    if k == "sub":
        sp = {"offset": "SOffset %s" % cz(o["sa"]), "earliest": "SEarliest", "latest": "SLatest", "newonly": "SNewOnly", "ts": "STimestamp %s" % cz(o["sa"])}[o["sk"]]
        tp = {"cancel": "TCancel", "offset": "TOffset %s" % cz(o["ta"]), "latest": "TLatest", "ts": "TTimestamp %s" % cz(o["ta"])}[o["tk"]]
        end = o["end"]
        code = {"stop": 0, "roend": 1, "wait": 2, "eof": 3, "invalid": 4, "empty": 5, "noreader": 6}.get(end)
        if code is None:
            code = 7 if "timestamp is before" in end else 99
        return "LSub (%s) (%s) %s %s %s" % (sp, tp, coq_bool(o["rev"]), c_list([cz(x) for x in (o.get("offs") or [])]), coq_N(code))
    if k == "cleanc":
        return "LCleanC %s" % cz(o["ttl"])
    if k == "rread":
        return "LRRead %s %s %s %s %s" % (coq_bool(o["unc"]), cz(o["start"]), cz(o["stop"]), coq_bool(o["found"]), c_list([c_rec(r) for r in (o.get("recs") or [])]))
    if k in ("cleanroll", "cleancroll"):
        return "%s %s %s" % ("LCleanRoll" if k == "cleanroll" else "LCleanCRoll", cz(o["ttl"]), c_list(["(%s, %s, %s)" % (
            c_list([c_msg(m) for m in a["msgs"]]), coq_N(a["res"]), c_list([cz(x) for x in (a.get("offs") or [])])) for a in (o.get("during") or [])]))
    if k == "clean":
        return "LClean %s" % cz(o["ttl"])
    if k == "layout":
        return "LLayout %s" % c_list(["(%s, %s, %s)" % (cz(a), cz(b), cz(c)) for a, b, c in o["lay"]])
    raise ValueError(k)


def c_case(c):
    return "{| lc_maxb := %s; lc_cc := %s; lc_lim := mkLimits %s %s %s; lc_ops := [\n   %s] |}" % (
        cz(c["maxb"]), coq_bool(c["cc"]), cz(c.get("ret_bytes", 0)), cz(c.get("ret_msgs", 0)), cz(c.get("ret_age", 0)),
        ";\n   ".join(c_op(o) for o in c["ops"]))


def eval_log_cases(ctx, cases, tag, shard=40):
    """Returns list of (case, op index) that disagree with the model."""
    jobs = []
    for s in range(0, len(cases), shard):
        part = cases[s:s + shard]
        txt = "From LB Require Import Base.Prelude Log.Model Log.Retention Log.Compact Api.Range Log.Check.\nOpen Scope Z_scope.\n"
        sentinel = "{| lc_maxb := 100; lc_cc := false; lc_lim := mkLimits 0 0 0; lc_ops := [LState 12345 0 0] |}"
        txt += "Definition CS : list lcase := [\n %s].\n" % ";\n ".join([c_case(c) for c in part] + [sentinel])
        txt += "Definition M := Eval vm_compute in lcases_mismatches CS 0.\nPrint M.\n"
        jobs.append((("cases_%s_%d" % (tag, len(jobs)), txt), part))
    outs = ctx.coq_eval_many([j[0] for j in jobs], jobs=12)
    mism = []
    for out, (_, part) in zip(outs, jobs):
        if out is None:
            continue
        m = re.search(r"M\s*=\s*(.*?)\n\s*:", out, re.S)
        if not m:
            ctx.tie_problems.append({"what": "could not parse the model's answer", "detail": out[-500:]})
            continue
        pairs = [(int(a), int(b)) for a, b in re.findall(r"\(\s*(\d+)(?:%nat)?\s*,\s*(\d+)(?:%nat)?\s*\)", m.group(1))]
        if (len(part), 0) not in pairs:
            ctx.tie_problems.append({"what": "the model evaluation did not report the sentinel mismatch: its answer cannot be trusted", "detail": out[-300:]})
        for a, b in pairs:
            if a < len(part):
                mism.append((part[a], b))
    return mism, len(jobs)
