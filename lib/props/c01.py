"""C01 -- the partition log is a gap-free, ordered, immutable record of what was appended."""
import json
import os
from vcommon import Ctx
import re
from logcases import eval_log_cases, cz, c_list
from vcommon import coq_bool

TEND = {"parked": "EParked", "held": "EHeld", "spin": "ESpin", "lost": "ELost"}


def c_tblock(b):
    acts = []
    for a in b["acts"]:
        if a["a"] == "append":
            acts.append("AAppend")
        elif a["a"] == "roll-append":
            acts.append("ARollAppend")
        elif a["a"] == "roll":
            acts.append("ARoll")
        else:
            acts.append("ATrunc %s" % cz(a["k"]))
    segs = c_list(["(%s, %s)" % (cz(x["len"]), coq_bool(x["sealed"])) for x in b["segs"]])
    return "mkTb %s %s %s %s %s" % (c_list(acts), coq_bool(b["hold"]), TEND[b["end"]], cz(b["got"]), segs)


def eval_tail(ctx, cases, shard=100):
    """-> list of (case, block index) where the real log + reader and the LTS of Log/TailWait.v differ."""
    jobs = []
    for s in range(0, len(cases), shard):
        part = cases[s:s + shard]
        txt = "From LB Require Import Base.Prelude Log.TailWait Log.TailCheck.\nOpen Scope Z_scope.\n"
        sentinel = "(3, [mkTb [AAppend] false EParked 12345 []])"
        txt += "Definition CS : list (Z * list tblock) := [\n %s].\n" % ";\n ".join(
            ["(%s, %s)" % (cz(c["cap"]), c_list([c_tblock(b) for b in c["blocks"]])) for c in part] + [sentinel])
        txt += "Definition M := Eval vm_compute in tcases_mismatches CS 0.\nPrint M.\n"
        jobs.append((("tail_%d" % len(jobs), txt), part))
    outs = ctx.coq_eval_many([j[0] for j in jobs], jobs=8)
    mism = []
    for out, (_, part) in zip(outs, jobs):
        if out is None:
            continue
        m = re.search(r"M\s*=\s*(.*?)\n\s*:", out, re.S)
        if not m:
            ctx.tie_problems.append({"what": "could not parse the model's answer (tail reader)", "detail": out[-500:]})
            continue
        pairs = [(int(a), int(b)) for a, b in re.findall(r"\(\s*(\d+)(?:%nat)?\s*,\s*(\d+)(?:%nat)?\s*\)", m.group(1))]
        if (len(part), 0) not in pairs:
            ctx.tie_problems.append({"what": "the model evaluation (tail reader) did not report the sentinel mismatch: its answer cannot be trusted", "detail": out[-300:]})
        for a, b in pairs:
            if a < len(part):
                mism.append((part[a], b))
    return mism


def nontrivial(c):
    """crosses a segment boundary, or truncates inside the log, or reopens with content"""
    rolls = 0
    ops = c["ops"]
    kinds = set(o["op"] for o in ops)
    nrec = sum(len(o.get("msgs") or o.get("recs") or []) for o in ops if o["op"] in ("append", "aset"))
    return nrec >= 3 and (("trunc" in kinds) or ("reopen" in kinds) or c["maxb"] < 1000)


def run(pid, tier, seed, replay):
    ctx = Ctx(pid, tier, seed)
    ctx.trusted += ["modelled, not verified: file system and mmap behaviour (a segment is a list of records; positions are sums of frame sizes); int32 narrowing of index entries (guarded)", "the tail-reader LTS (Log/TailWait.v) has one transition per critical section of the reader loop and of the writers; the Go scheduler is not modelled: the driver controls the one window that matters (between the reader's look at the segment list and segment.waitForData) with a verif hook and compares at quiescent points only"]
    ctx.coq_cone("Properties/C01.v")
    env = {"VERIF_PROFILE": "c01", "VERIF_N": 240 if tier == "quick" else 4000}
    if replay:
        rp = json.load(open(replay))
        cf = os.path.join(ctx.work, "replay_cases.jsonl")
        with open(cf, "w") as f:
            for c in rp.get("cases", []):
                f.write(json.dumps(c) + "\n")
        env["VERIF_REPLAY_CASES"] = cf
    lines = ctx.go_driver("server/commitlog", ["commitlog/logdrv_test.go"], "^TestVerifLog$", env=env, timeout=1500)
    cases = [l for l in lines if l.get("k") == "log"]
    # the blocking tail reader against appends, size and age rolls, truncations (verif hook: the reader is held in front of waitForData)
    lines2 = ctx.go_driver("server/commitlog", ["commitlog/tailwait_test.go"], "^TestVerifTailWait$", env={"VERIF_N": 150 if tier == "quick" else 3000}, tags="verif", timeout=1500)
    tcases = [l for l in lines2 if l.get("k") == "tail"]
    for c in tcases:
        c["blocks"] = c.get("blocks") or []
    for c, j in eval_tail(ctx, tcases)[:3]:
        ctx.tie_problems.append({"what": "correspondence Log.TailCheck.tcases_mismatches: tail-reader case %d differs from the LTS at block %d (%s)" % (c["id"], j, json.dumps(c["blocks"][j])[:300]),
                                 "first": [{"case": {"k": "tail", "id": c["id"], "cap": c["cap"], "blocks": c["blocks"][:j + 1]}}]})
    dist = {}
    for l in lines + lines2:
        if l.get("k") == "stat":
            dist.update(l["dist"])
        if l.get("k") == "violation":
            ctx.add_violation(l["sig"], l["what"], [l["case"]])
    mism, nshards = eval_log_cases(ctx, cases, "c01")
    if mism:
        ctx.tie_problems.append({"what": "correspondence Log.Check.lcases_mismatches: %d histories differ from the model" % len(mism),
                                 "first": [{"case": c, "op_index": j, "op": c["ops"][j]} for c, j in mism[:2]]})
    canon = set()
    nobs = 0
    for c in cases:
        nobs += len(c["ops"])
        if nontrivial(c):
            canon.add(json.dumps([c["maxb"], [[o["op"], o.get("o"), len(o.get("msgs") or o.get("recs") or [])] for o in c["ops"] if o["op"] not in ("state", "read")]]))
    samples = [cases[0]] if cases else []
    return ctx.finish(
        coverage={"input_distribution": dist, "tail_reader_cases": len(tcases), "tail_reader_blocks": sum(len(c["blocks"]) for c in tcases), "histories": len(cases), "observations_compared": nobs, "case_shards": nshards},
        samples=samples,
        rule="(tail) a real Reader.ReadMessage loop in its own goroutine, held by the verif hook in front of segment.waitForData while the driver appends, rolls segments by size and by age (package clock under the driver's control) and truncates, then released until it parks or spins: delivered count, end state and segments compared with the LTS of Log/TailWait.v after every block, and a parked or spinning reader with undelivered messages is a violation; (histories) operation histories (append batches 1-5 with nil/empty/short/large keys, values, headers; message-set appends; truncations at random offsets, segment bases, the end; close/reopen; HW moves) over segment limits 70..400 bytes and unlimited, each followed by uncommitted and committed readers from every segment boundary +-1, 0, hw, hw+1, newest, newest+1; non-trivial = >=3 records and (a truncate, a reopen or a segment limit that forces rolls); distinct by (limit, op kinds, offsets, batch sizes)",
        evaluations=len(cases) + len(tcases), distinct_nontrivial=len(canon) + len(set(json.dumps(c['blocks']) for c in tcases if len(c['blocks']) >= 2)), traces=len(cases) + len(tcases))
