"""C01 -- the partition log is a gap-free, ordered, immutable record of what was appended."""
import json
import os
from vcommon import Ctx
from logcases import eval_log_cases


def nontrivial(c):
    """crosses a segment boundary, or truncates inside the log, or reopens with content"""
    rolls = 0
    ops = c["ops"]
    kinds = set(o["op"] for o in ops)
    nrec = sum(len(o.get("msgs") or o.get("recs") or []) for o in ops if o["op"] in ("append", "aset"))
    return nrec >= 3 and (("trunc" in kinds) or ("reopen" in kinds) or c["maxb"] < 1000)


def run(pid, tier, seed, replay):
    ctx = Ctx(pid, tier, seed)
    ctx.trusted += ["modelled, not verified: file system and mmap behaviour (a segment is a list of records; positions are sums of frame sizes); time-based segment roll; int32 narrowing of index entries (guarded)"]
    ctx.coq_cone("Properties/C01.v")
    env = {"VERIF_PROFILE": "c01", "VERIF_N": 240 if tier == "quick" else 4000}
    if replay:
        rp = json.load(open(replay))
        cf = os.path.join(ctx.work, "replay_cases.jsonl")
        with open(cf, "w") as f:
            for c in rp.get("cases", []):
                f.write(json.dumps(c) + "\n")
        env["VERIF_REPLAY_CASES"] = cf
    lines = ctx.go_driver("server/commitlog", ["commitlog/logdrv_test.go"], "^TestVerifLog$", env=env, timeout=1500)
    cases = [l for l in lines if l.get("k") == "log"]
    dist = {}
    for l in lines:
        if l.get("k") == "stat":
            dist.update(l["dist"])
        if l.get("k") == "violation":
            ctx.add_violation(l["sig"], l["what"], [l["case"]])
    mism, nshards = eval_log_cases(ctx, cases, "c01")
    if mism:
        ctx.tie_problems.append({"what": "correspondence Log.Check.lcases_mismatches: %d histories differ from the model" % len(mism),
                                 "first": [{"case": c, "op_index": j, "op": c["ops"][j]} for c, j in mism[:2]]})
    canon = set()
    nobs = 0
    for c in cases:
        nobs += len(c["ops"])
        if nontrivial(c):
            canon.add(json.dumps([c["maxb"], [[o["op"], o.get("o"), len(o.get("msgs") or o.get("recs") or [])] for o in c["ops"] if o["op"] not in ("state", "read")]]))
    samples = [cases[0]] if cases else []
    return ctx.finish(
        coverage={"input_distribution": dist, "histories": len(cases), "observations_compared": nobs, "case_shards": nshards},
        samples=samples,
        rule="operation histories (append batches 1-5 with nil/empty/short/large keys, values, headers; message-set appends; truncations at random offsets, segment bases, the end; close/reopen; HW moves) over segment limits 70..400 bytes and unlimited, each followed by uncommitted and committed readers from every segment boundary +-1, 0, hw, hw+1, newest, newest+1; non-trivial = >=3 records and (a truncate, a reopen or a segment limit that forces rolls); distinct by (limit, op kinds, offsets, batch sizes)",
        evaluations=len(cases), distinct_nontrivial=len(canon), traces=len(cases))
