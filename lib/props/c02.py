"""C02 -- committed messages survive leader changes; replicas never diverge below the HW."""
import json
import re
from vcommon import Ctx, coq_N

REP = {"a": 0, "b": 1, "c": 2}


def c_obs(st):
    logs = "; ".join("(%s, [%s])" % (coq_N(REP[r]), "; ".join("(%s, %s)" % (coq_N(e), coq_N(i)) for e, i in st["logs"][r])) for r in ("a", "b", "c"))
    hws = "; ".join("(%s, (%d))" % (coq_N(REP[r]), st["hws"][r]) for r in ("a", "b", "c") if r in st["hws"])
    view = "; ".join("(%s, (%d))" % (coq_N(REP[r]), o) for r, o in sorted(st["view"].items()))
    return "mkKObs %s %s [%s] [%s] [%s] [%s]" % (coq_N(REP[st["leader"]]), coq_N(st["epoch"]), "; ".join(coq_N(REP[r]) for r in st["isr"]), logs, hws, view)


def c_step(st):
    k = st["op"]
    if k == "publish":
        x = "KPublish %s" % coq_N(st["v"])
    elif k == "fetch":
        x = "KFetch %s %d%%nat" % (coq_N(REP[st["r"]]), st["n"])
    elif k == "elect":
        x = "KElect %s %s" % (coq_N(REP[st["r"]]), coq_N(st["e"]))
    elif k == "reconcile":
        x = "KReconcile %s" % coq_N(REP[st["r"]])
    elif k == "shrink":
        x = "KShrink %s" % coq_N(REP[st["r"]])
    elif k == "expand":
        x = "KExpand %s" % coq_N(REP[st["r"]])
    elif k == "fallback":
        x = "FFallback %s" % coq_N(REP[st["r"]])
    elif k == "expand-behind":
        x = "FExpandBehind %s" % coq_N(REP[st["r"]])
    else:
        raise ValueError(k)
    if k == "elect" and st["r"] != "a":
        # the real server reconciles inside the apply of the leader change: its state is compared after the
        # reconcile step that follows; here only leader, epoch and ISR are
        return "(%s, mkKObs %s %s [%s] [] [] [])" % (x, coq_N(REP[st["leader"]]), coq_N(st["epoch"]), "; ".join(coq_N(REP[r]) for r in st["isr"]))
    return "(%s, %s)" % (x, c_obs(st))


def has_fallback(c):
    return any(s["op"] in ("fallback", "expand-behind") for s in c["steps"]) or c.get("scenario")


def f_case(c):
    # histories with the truncation fallback: every other step wrapped as a step of Repl.Cluster
    steps = [s for s in c["steps"] if s["op"] != "start"]
    out = []
    for s in steps:
        t = c_step(s)
        if s["op"] not in ("fallback", "expand-behind"):
            t = "(FBase (" + t[1:].replace(", mkKObs", "), mkKObs", 1)
        out.append(t)
    return "mkFCase %d%%nat %s [\n   %s]" % (c["minisr"], coq_N(c["steps"][0]["epoch"]), ";\n   ".join(out))


def c_case(c):
    steps = [s for s in c["steps"] if s["op"] != "start"]
    return "mkKCase %d%%nat %s [\n   %s]" % (c["minisr"], coq_N(c["steps"][0]["epoch"]), ";\n   ".join(c_step(s) for s in steps))


def run(pid, tier, seed, replay):
    ctx = Ctx(pid, tier, seed)
    ctx.trusted.append("modelled, not verified: one replica (a) is the real server, the other two are played by the driver following the model's rules (their leader-epoch-offset answers and replication responses are built from real commit logs); every step is atomic and a follower reconciles against the current leader; the HW-truncation fallback taken when the leader cannot be reached is modelled apart (Repl/Fallback.v) and replayed by one corpus history per configuration (known finding), a leader that restarts as leader without reconciling, Raft, NATS and timing (lag-based ISR changes, failure detection) are outside the model")
    ctx.coq_cone("Properties/C02.v")
    env = {"VERIF_N": 14 if tier == "quick" else 150}
    lines = ctx.go_driver("server", ["server/srv_test.go", "server/partdrv_test.go", "server/c02_test.go"], "^TestVerifC02$", env=env, timeout=6000)
    # the real leader's own timers (max lag time 1 s): removal of a silent replica and its re-admission by the tick
    lines += ctx.go_driver("server", ["server/srv_test.go", "server/partdrv_test.go", "server/c02_test.go"], "^TestVerifC02ExpandByTime$", env=env, timeout=600)
    allcases = [l for l in lines if l.get("k") == "repl"]
    scen = [l for l in lines if l.get("k") == "expand-by-time"]
    cases = [c for c in allcases if not has_fallback(c)]
    fcases = [c for c in allcases if has_fallback(c)]
    dist = {}
    for l in lines:
        if l.get("k") == "stat":
            dist.update(l["dist"])
        if l.get("k") == "violation":
            ctx.add_violation(l["sig"], l["what"], [l["case"]])
    jobs = []
    shard = 20
    for s in range(0, len(cases), shard):
        part = cases[s:s + shard]
        txt = "From LB Require Import Base.Prelude Repl.Cluster.\nOpen Scope Z_scope.\n"
        # sentinel: the follower is said to hold a message it was never given
        sentinel = "mkKCase 1%nat 4%N [(KPublish 1%N, mkKObs 0%N 4%N [0%N; 1%N; 2%N] [(0%N, [(4%N, 1%N)]); (1%N, [(4%N, 1%N)])] [] [])]"
        txt += "Definition CS : list kcase := [\n %s].\n" % ";\n ".join([c_case(c) for c in part] + [sentinel])
        txt += "Definition M := Eval vm_compute in kcases_mismatches CS 0.\nPrint M.\n"
        jobs.append((("cases_c02_%d" % len(jobs), txt), part))
    if fcases:
        # the histories that take the truncation fallback run against Repl.Fallback: they must follow that model
        # step by step, and the model must agree on whether a committed message is missing from the last leader
        txt = "From LB Require Import Base.Prelude Repl.Cluster Repl.Fallback.\nOpen Scope Z_scope.\n"
        txt += "Definition FS : list fcase := [\n %s].\n" % ";\n ".join(f_case(c) for c in fcases)
        txt += "Definition R := Eval vm_compute in map fcase_result FS.\nPrint R.\n"
        fout = ctx.coq_eval_many([("cases_c02_fallback", txt)], jobs=1)[0]
        got = re.findall(r"\((None|Some \d+)(?:%nat)?\s*,\s*(true|false)\)", fout or "")
        if len(got) != len(fcases):
            ctx.tie_problems.append({"what": "could not parse the fallback model's answer", "detail": (fout or "")[-500:]})
        for (where, lost), c in zip(got, fcases):
            seen = any(l.get("k") == "violation" and l["case"]["id"] == c["id"] and l["sig"].startswith("committed-message-lost") for l in lines)
            if where != "None":
                idx = int(where.split()[1])
                st = [s for s in c["steps"] if s["op"] != "start"]
                ctx.tie_problems.append({"what": "correspondence Repl.Fallback.check_fcluster: history %s (with a step outside Repl.Cluster's protocol) differs from the model at step %d (%s)" % (c["id"], idx, st[idx]["op"]),
                                         "first": [{"step": st[idx], "before": st[idx - 1] if idx > 0 else c["steps"][0], "ops": [{k: v for k, v in s.items() if k in ("op", "r", "n", "v", "e")} for s in st[:idx + 1]]}]})
            elif (lost == "true") != seen:
                ctx.tie_problems.append({"what": "history %s with the truncation fallback: the model says committed-lost=%s, the driver's oracle saw it=%s" % (c["id"], lost, seen)})
    outs = ctx.coq_eval_many([j[0] for j in jobs], jobs=12)
    for out, (_, part) in zip(outs, jobs):
        if out is None:
            continue
        m = re.search(r"M\s*=\s*(.*?)\n\s*:", out, re.S)
        if not m:
            ctx.tie_problems.append({"what": "could not parse the model's answer", "detail": out[-500:]})
            continue
        pairs = [(int(a), int(b)) for a, b in re.findall(r"\(\s*(\d+)(?:%nat)?\s*,\s*(\d+)(?:%nat)?\s*\)", m.group(1))]
        if (len(part), 0) not in pairs:
            ctx.tie_problems.append({"what": "the sentinel case was not rejected by the model evaluation", "detail": m.group(1)[-300:]})
        for a, b in pairs:
            if a < len(part):
                c = part[a]
                steps = [s for s in c["steps"] if s["op"] != "start"]
                ctx.tie_problems.append({"what": "correspondence Repl.Cluster.kcases_mismatches: history %s differs from the model at step %d (%s)" % (c["id"], b, steps[b]["op"]),
                                         "first": [{"step": steps[b], "before": steps[b - 1] if b > 0 else c["steps"][0], "ops": [{k: v for k, v in s.items() if k in ("op", "r", "n", "v", "e")} for s in steps[:b + 1]]}]})
                break
    canon = set()
    nsteps = 0
    for c in allcases:
        kinds = [s["op"] for s in c["steps"]]
        nsteps += len(kinds)
        if kinds.count("elect") >= 1 and "reconcile" in kinds and "fetch" in kinds:
            canon.add(json.dumps([[s["op"], s.get("r"), s.get("n")] for s in c["steps"]]))
    return ctx.finish(
        coverage={"input_distribution": dist, "timer_scenario": scen, "histories": len(allcases), "histories_with_truncation_fallback": len(fcases), "steps": nsteps, "case_shards": len(jobs)},
        samples=[{"id": c["id"], "steps": [{k: v for k, v in s.items() if k in ("op", "r", "n", "v", "e", "leader", "hws")} for s in c["steps"][:8]]} for c in cases[:1]],
        rule="per history a partition with replicas a (the real in-process server), b and c (played by the driver): 12-33 steps of publish at the leader, follower fetch of 1-4 entries, election of a reconciled ISR member (the real server both loses and regains leadership; as a follower it reconciles and replicates from a phantom leader through the real becomeFollower / truncateUncommitted / replication loop), reconciliation of a phantom follower against the real leader's leader-epoch-offset answer, ISR shrink and expand through Raft; minimum ISR 1 and 2; after every step all three logs (epoch, message), HWs and the leader's offset table are compared with the model, and a direct oracle checks that committed messages stay on every leader and replicas agree below their HWs; non-trivial = an election, a reconciliation and a fetch; distinct by step sequence",
        evaluations=len(allcases), distinct_nontrivial=len(canon), traces=len(allcases))
