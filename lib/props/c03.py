"""C03 -- consumers see only committed messages: all of them, once, in order."""
import json
from vcommon import Ctx
import re
from logcases import eval_log_cases, cz, c_list
from vcommon import coq_bool


def c_wstep(st):
    lb = st["lb"]
    k = lb["l"]
    if k == "append":
        labels = ["WAppend %s" % cz(lb["n"])]
    elif k == "ro":
        labels = ["WRoFlag %s" % coq_bool(lb["b"])] + (["WRoNotify"] if lb["b"] else [])
    elif k == "sethw":
        labels = ["WSetHW %s" % cz(lb["h"])]
    elif k == "sync":
        labels = ["WSync %d%%nat" % lb["i"]]
    elif k == "deliver":
        labels = ["WDeliver %d%%nat" % lb["i"]]
    else:
        labels = ["WWait %d%%nat" % lb["i"]]
    rs = c_list(["(%s, %s, %s, %s)" % (cz(x["next"]), cz(x["seen"]), coq_bool(x["parked"]), coq_bool(x["ended"])) for x in st["rs"]])
    return "(%s, mkWobs %s %s %s %s)" % (c_list(labels), cz(st["hw"]), cz(st["newest"]), coq_bool(st["ro"]), rs)


def eval_hwwait(ctx, cases, shard=100):
    """-> list of (case, step index) where the commit log and the LTS of Log/HwWaitRo.v differ."""
    jobs = []
    for s in range(0, len(cases), shard):
        part = cases[s:s + shard]
        txt = "From LB Require Import Base.Prelude Log.HwWaitRo Log.HwWaitCheck.\nOpen Scope Z_scope.\n"
        sentinel = "(1%nat, [([WAppend 1], mkWobs 12345 0 false [(0, -1, false, false)])])"
        txt += "Definition CS : list (nat * list (list wlabel * wobs)) := [\n %s].\n" % ";\n ".join(
            ["(%d%%nat, %s)" % (c["readers"], c_list([c_wstep(st) for st in c["steps"]])) for c in part] + [sentinel])
        txt += "Definition M := Eval vm_compute in wcases_mismatches CS 0.\nPrint M.\n"
        jobs.append((("hwwait_%d" % len(jobs), txt), part))
    outs = ctx.coq_eval_many([j[0] for j in jobs], jobs=8)
    mism = []
    for out, (_, part) in zip(outs, jobs):
        if out is None:
            continue
        m = re.search(r"M\s*=\s*(.*?)\n\s*:", out, re.S)
        if not m:
            ctx.tie_problems.append({"what": "could not parse the model's answer (hwwait)", "detail": out[-500:]})
            continue
        pairs = [(int(a), int(b)) for a, b in re.findall(r"\(\s*(\d+)(?:%nat)?\s*,\s*(\d+)(?:%nat)?\s*\)", m.group(1))]
        if (len(part), 0) not in pairs:
            ctx.tie_problems.append({"what": "the model evaluation (hwwait) did not report the sentinel mismatch: its answer cannot be trusted", "detail": out[-300:]})
        for a, b in pairs:
            if a < len(part):
                mism.append((part[a], b))
    return mism


def run(pid, tier, seed, replay):
    ctx = Ctx(pid, tier, seed)
    ctx.trusted.append("partial: the LTS (Log/HwWait.v) has one transition per critical section of SetHighWatermark / waitForHW / reader step; the Go scheduler, memory model and channel semantics are not modelled -- the concurrent stress run with an online monitor is what connects the theorem to the runtime (race detector in the thorough tier)")
    ctx.coq_cone("Properties/C03.v")
    ctx.trusted.append("the lock-granularity replay calls commitLog.waitForHW directly with the view a committed reader would pass; committedReader.Read itself (which reads the HW, compares and calls waitForHW) is exercised by the histories and the stress run")
    # deterministic part: histories with live committed readers, compared step by step with the model
    env = {"VERIF_PROFILE": "c03", "VERIF_N": 150 if tier == "quick" else 2000}
    lines = ctx.go_driver("server/commitlog", ["commitlog/logdrv_test.go"], "^TestVerifLog$", env=env, timeout=1500)
    cases = [l for l in lines if l.get("k") == "log"]
    # the wake-up protocol at lock granularity: every label of Log/HwWaitRo.v is one call into the commit log
    lines3 = ctx.go_driver("server/commitlog", ["commitlog/hwwait_test.go"], "^TestVerifHwWait$", env={"VERIF_N": 300 if tier == "quick" else 5000}, timeout=1500)
    wcases = [l for l in lines3 if l.get("k") == "hwwait"]
    for c in wcases:
        c["steps"] = c.get("steps") or []
    wm = eval_hwwait(ctx, wcases)
    for c, j in wm[:3]:
        ctx.tie_problems.append({"what": "correspondence Log.HwWaitCheck.wcases_mismatches: label sequence %d differs from the LTS after step %d (%s)" % (c["id"], j, json.dumps(c["steps"][j]["lb"])),
                                 "first": [{"case": {"id": c["id"], "readers": c["readers"], "steps": c["steps"][:j + 1]}}]})
    # concurrent part
    env2 = {"VERIF_N": 30 if tier == "quick" else 300}
    lines2 = ctx.go_driver("server/commitlog", ["commitlog/c03_test.go"], "^TestVerifC03$", env=env2, timeout=1500, race=(tier == "thorough"))
    dist = {}
    for l in lines + lines2 + lines3:
        if l.get("k") == "stat":
            dist.update(l["dist"])
        if l.get("k") == "violation":
            ctx.add_violation(l["sig"], l["what"], [l["case"]])
    mism, nshards = eval_log_cases(ctx, cases, "c03")
    if mism:
        ctx.tie_problems.append({"what": "correspondence Log.Check.lcases_mismatches: %d histories differ from the model" % len(mism),
                                 "first": [{"op_index": j, "op": c["ops"][j]} for c, j in mism[:2]]})
    stress = [l for l in lines2 if l.get("k") == "stress"]
    live = 0
    canon = set()
    for c in cases:
        n = sum(1 for o in c["ops"] if o["op"] == "rnext" and o.get("recs"))
        live += n
        if n:
            canon.add(c["id"])
    return ctx.finish(
        coverage={"input_distribution": dist, "histories_with_live_readers": len(canon), "live_reader_deliveries": live,
                  "lock_granularity_label_sequences": len(wcases), "lock_granularity_steps": sum(len(c["steps"]) for c in wcases),
                  "stress_rounds": len(stress), "stress_deliveries": sum(s["deliveries"] for s in stress), "race_detector": tier == "thorough"},
        samples=stress[:2] or [{}],
        rule="(0) label sequences of the wake-up LTS (Log/HwWaitRo.v) executed one call per label on a real commit log (Append, SetReadonly, SetHighWatermark, HighWatermark, waitForHW) and compared with the model after every label; (a) operation histories with committed and uncommitted Reader objects kept across appends, rolls, HW moves and truncations, every read compared with the model; (b) concurrent rounds: an appender, a HW mover with random steps, 2-6 committed readers started at arbitrary offsets (also beyond the HW and on an empty log) with an online monitor (offset <= HighWatermark() after the read, consecutive offsets, content) and a final drain that detects lost wake-ups; non-trivial = a history in which a live reader delivered, or a stress round; distinct by history / round",
        evaluations=len(cases) + len(stress) + len(wcases), distinct_nontrivial=len(canon) + len(stress) + len(set(json.dumps([st['lb'] for st in c['steps']]) for c in wcases if any(st['lb']['l'] == 'wait' for st in c['steps']))), traces=len(cases) + len(wcases))
