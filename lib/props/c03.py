"""C03 -- consumers see only committed messages: all of them, once, in order."""
import json
from vcommon import Ctx
from logcases import eval_log_cases


def run(pid, tier, seed, replay):
    ctx = Ctx(pid, tier, seed)
    ctx.trusted.append("partial: the LTS (Log/HwWait.v) has one transition per critical section of SetHighWatermark / waitForHW / reader step; the Go scheduler, memory model and channel semantics are not modelled -- the concurrent stress run with an online monitor is what connects the theorem to the runtime (race detector in the thorough tier)")
    ctx.coq_cone("Properties/C03.v")
    # deterministic part: histories with live committed readers, compared step by step with the model
    env = {"VERIF_PROFILE": "c03", "VERIF_N": 150 if tier == "quick" else 2000}
    lines = ctx.go_driver("server/commitlog", ["commitlog/logdrv_test.go"], "^TestVerifLog$", env=env, timeout=1500)
    cases = [l for l in lines if l.get("k") == "log"]
    # concurrent part
    env2 = {"VERIF_N": 30 if tier == "quick" else 300}
    lines2 = ctx.go_driver("server/commitlog", ["commitlog/c03_test.go"], "^TestVerifC03$", env=env2, timeout=1500, race=(tier == "thorough"))
    dist = {}
    for l in lines + lines2:
        if l.get("k") == "stat":
            dist.update(l["dist"])
        if l.get("k") == "violation":
            ctx.add_violation(l["sig"], l["what"], [l["case"]])
    mism, nshards = eval_log_cases(ctx, cases, "c03")
    if mism:
        ctx.tie_problems.append({"what": "correspondence Log.Check.lcases_mismatches: %d histories differ from the model" % len(mism),
                                 "first": [{"op_index": j, "op": c["ops"][j]} for c, j in mism[:2]]})
    stress = [l for l in lines2 if l.get("k") == "stress"]
    live = 0
    canon = set()
    for c in cases:
        n = sum(1 for o in c["ops"] if o["op"] == "rnext" and o.get("recs"))
        live += n
        if n:
            canon.add(c["id"])
    return ctx.finish(
        coverage={"input_distribution": dist, "histories_with_live_readers": len(canon), "live_reader_deliveries": live,
                  "stress_rounds": len(stress), "stress_deliveries": sum(s["deliveries"] for s in stress), "race_detector": tier == "thorough"},
        samples=stress[:2] or [{}],
        rule="(a) operation histories with committed and uncommitted Reader objects kept across appends, rolls, HW moves and truncations, every read compared with the model; (b) concurrent rounds: an appender, a HW mover with random steps, 2-6 committed readers started at arbitrary offsets (also beyond the HW and on an empty log) with an online monitor (offset <= HighWatermark() after the read, consecutive offsets, content) and a final drain that detects lost wake-ups; non-trivial = a history in which a live reader delivered, or a stress round; distinct by history / round",
        evaluations=len(cases) + len(stress), distinct_nontrivial=len(canon) + len(stress), traces=len(cases))
