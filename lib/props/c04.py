"""C04 -- acknowledgements mean what the ack policy says."""
import json
import re
from vcommon import Ctx, coq_N, coq_bool

REP = {"b": 1, "c": 2}
POL = {"LEADER": "PLeader", "ALL": "PAll", "NONE": "PNone"}
KIND = {"OK": 0, "TOO_LARGE": 1, "INCORRECT_OFFSET": 2, "ENCRYPTION": 3}


def rep(name):
    return REP.get(name, 0)


def c_obs(st):
    isr = "; ".join("(%s, (%d))" % (coq_N(rep(r)), o) for r, o in sorted(((r, o) for r, o in (st["isr"] or [])), key=lambda x: rep(x[0])))
    acks = "; ".join("(%s, (%d), %d%%nat)" % (coq_N(int(a["corr"][1:])), a["off"] if a["err"] == "OK" else 0, KIND[a["err"]]) for a in (st["acks"] or []))
    return "mkLObs (%d) (%d) [%s] [%s]" % (st["newest"], st["hw"], isr, acks)


def c_step(st):
    k = st["op"]
    if k == "publish":
        ms = "; ".join("mkMsgE %s %s %s (%d) %s" % (coq_N(int(m["corr"][1:])), POL[m["policy"]], coq_bool(m["large"]), m["expected"], coq_bool(bool(m.get("unsealable")))) for m in st["msgs"])
        x = "LPublish [%s]" % ms
    elif k == "follower":
        x = "LFollower %s (%d)" % (coq_N(rep(st["r"])), st["o"])
    elif k == "stale":
        x = "LFollower 0 (0)"   # a request from an earlier leader epoch is dropped: no step of the model
    elif k == "regain":
        x = "LRegain (%d) %d%%nat (%d)" % (st["keep"], st["foreign"], st["simhw"])
    elif k == "shrink":
        x = "LShrink %s" % coq_N(rep(st["r"]))
    else:
        x = "LExpand %s" % coq_N(rep(st["r"]))
    return "(%s, %s)" % (x, c_obs(st))


def c_case(c):
    return "mkLCase [%s] %d%%nat %s [\n   %s]" % ("; ".join(coq_N(rep(r)) for r in c["replicas"]), c["minisr"], coq_bool(c["cc"]),
                                                ";\n   ".join(c_step(s) for s in c["steps"]))


def run(pid, tier, seed, replay):
    ctx = Ctx(pid, tier, seed)
    ctx.trusted.append("modelled, not verified: NATS delivery, the commit queue implementation and Go scheduling between the message loop and the commit loop (the driver lets the partition settle after every step, so each step's effects are observed complete); followers are played by the driver through real ReplicationRequest messages, the follower side of replication is C02's; the encryption handler of one stream in three is a stand-in whose Seal fails for marked values (the real handler's failures come from its key source, C17)")
    ctx.coq_cone("Properties/C04.v")
    env = {"VERIF_N": 7 if tier == "quick" else 60}
    lines = ctx.go_driver("server", ["server/srv_test.go", "server/partdrv_test.go", "server/c04_test.go"], "^TestVerifC04$", env=env, timeout=6000)
    cases = [l for l in lines if l.get("k") == "ack"]
    dist = {}
    for l in lines:
        if l.get("k") == "stat":
            dist.update(l["dist"])
        if l.get("k") == "violation" and l.get("prop", "C04") == "C04":
            ctx.add_violation(l["sig"], l["what"], [l["case"]])
    jobs = []
    shard = 40
    for s in range(0, len(cases), shard):
        part = cases[s:s + shard]
        txt = "From LB Require Import Base.Prelude Repl.Acks.\nOpen Scope Z_scope.\n"
        # sentinel: an ALL message acknowledged before the follower reported
        sentinel = "mkLCase [0%N; 1%N] 1%nat false [(LPublish [mkMsg 1%N PAll false (-1)], mkLObs 0 0 [(0%N, 0); (1%N, (-1))] [(1%N, 0, 0%nat)])]"
        txt += "Definition CS : list lcase := [\n %s].\n" % ";\n ".join([c_case(c) for c in part] + [sentinel])
        txt += "Definition M := Eval vm_compute in lcases_mismatches CS 0.\nPrint M.\n"
        jobs.append((("cases_c04_%d" % len(jobs), txt), part))
    outs = ctx.coq_eval_many([j[0] for j in jobs], jobs=12)
    mism = []
    for out, (_, part) in zip(outs, jobs):
        if out is None:
            continue
        m = re.search(r"M\s*=\s*(.*?)\n\s*:", out, re.S)
        if not m:
            ctx.tie_problems.append({"what": "could not parse the model's answer", "detail": out[-500:]})
            continue
        pairs = [(int(a), int(b)) for a, b in re.findall(r"\(\s*(\d+)(?:%nat)?\s*,\s*(\d+)(?:%nat)?\s*\)", m.group(1))]
        if (len(part), 0) not in pairs:
            ctx.tie_problems.append({"what": "the sentinel case was not rejected by the model evaluation", "detail": m.group(1)[-300:]})
        for a, b in pairs:
            if a < len(part):
                mism.append((part[a], b))
    for c, j in mism[:3]:
        ctx.tie_problems.append({"what": "correspondence Repl.Acks.lcases_mismatches: history %d differs from the model after step %d (%s)" % (c["id"], j, c["steps"][j]["op"]),
                                 "first": [{"step": c["steps"][j], "case": {"id": c["id"], "replicas": c["replicas"], "minisr": c["minisr"], "cc": c["cc"], "steps": c["steps"][:j + 1]}}]})
    canon = set()
    nsteps = 0
    for c in cases:
        kinds = set(s["op"] for s in c["steps"])
        nsteps += len(c["steps"])
        pols = set(m["policy"] for s in c["steps"] if s["op"] == "publish" for m in s["msgs"])
        if len(pols) >= 2 and (len(c["replicas"]) == 1 or "follower" in kinds):
            canon.add(json.dumps([c["replicas"], c["minisr"], c["cc"], [[s["op"], s.get("r"), s.get("o"), s.get("keep"), s.get("foreign"), [[m["policy"], m["large"], m["expected"]] for m in s.get("msgs", [])]] for s in c["steps"]]]))
    return ctx.finish(
        coverage={"input_distribution": dist, "histories": len(cases), "steps": nsteps, "case_shards": len(jobs)},
        samples=[{"id": c["id"], "replicas": c["replicas"], "minisr": c["minisr"], "steps": c["steps"][:4]} for c in cases[:1]],
        rule="per history a partition led by a real in-process server with 0-2 followers played by the driver (real replication requests), minimum ISR 1-3, replication factor 1-3, optional optimistic concurrency control, optional batching (groups of 2-5 messages reaching the loop as one batch): 8-23 steps of publishes with LEADER/ALL/NONE policy (some larger than the replication limit, some with right/wrong expected offsets, on one stream in three some whose value the encryption handler refuses to seal), follower progress reports, ISR shrinks and expansions through the real metadata API, and changes of leader term (a phantom in-sync replica is elected through Raft, holds the real server's log up to a chosen point at or above the HW plus 0-2 messages of its own, the real server follows it -- cuts back, fetches -- and is elected again; one corpus history per server where a report from the earlier term would otherwise count); after every step newest offset, HW, ISR offsets and every ack received are compared with the model and checked by a direct oracle; non-trivial = at least two ack policies and (RF 1 or follower progress); distinct by configuration and step sequence",
        evaluations=len(cases), distinct_nontrivial=len(canon), traces=len(cases))
