"""C05 -- the partition log recovers from a crash at any instant."""
import json
import os
from vcommon import Ctx
from diskcases import eval_disk_cases, Untranslatable


def run(pid, tier, seed, replay):
    ctx = Ctx(pid, tier, seed)
    ctx.trusted.append("process-crash model: one file-system effect (a write(2) of a batch, a store through the index mapping, create, rename, remove, an atomic checkpoint replace by natefinch/atomic) is the unit of atomicity and the OS keeps what was written; in addition a batch write and an index store may be torn (a byte prefix arrives: assumed of a killed write(2) and of the runtime's ascending memmove, constructed by the driver through file surgery) and commitlog.New is itself a list of effects that may be cut short; power loss (unsynced pages) is not modelled")
    ctx.trusted.append("the in-process crash (the crash-point hook panics, the log object is abandoned without Close) is validated on every run against a child process killed with SIGKILL at the same crash point: the files left behind must be identical")
    ctx.trusted.append("the verif-tagged crash points sit between the effects of append, roll, truncate, segment replacement, segment deletion, retention and compaction (MANIFEST.hooks); the model's scripts list every effect, the theorems quantify over every prefix of them, the driver can only stop at the named points")
    ctx.coq_cone("Properties/C05.v")
    nprog = 8 if tier == "quick" else 150
    env = {"VERIF_N": nprog, "VERIF_C05_REPLAYS": 60 if tier == "quick" else 400, "VERIF_C05_CHILD_EVERY": 25 if tier == "quick" else 10}
    if replay:
        rp = json.load(open(replay))
        cf = os.path.join(ctx.work, "replay_cases.jsonl")
        with open(cf, "w") as f:
            for c in rp.get("cases", []):
                f.write(json.dumps(c) + "\n")
        env["VERIF_REPLAY_CASES"] = cf
    lines = ctx.go_driver("server/commitlog", ["commitlog/logdrv_test.go", "commitlog/c05_test.go"], "^TestVerifC05$", env=env, tags="verif", timeout=3000 if tier == "quick" else 20000)
    aborted = [l for l in lines if l.get("k") == "aborted"]
    if aborted:
        # the driver stops the run when the code under test does not return; the violation has been written
        ctx.tie_problems = [t for t in ctx.tie_problems if "failed (rc=" not in t.get("what", "")]
    dist = {}
    for l in lines:
        if l.get("k") == "stat":
            dist.update(l["dist"])
        if l.get("k") == "violation":
            if l.get("prop") == "tie":
                ctx.tie_problems.append({"what": "C05 driver: " + l["what"][:600], "first": [l.get("case")]})
            else:
                ctx.add_violation(l["sig"], l["what"], [l["case"]])
    cases = [l for l in lines if l.get("k") == "dcase"]
    try:
        mism, nshards = eval_disk_cases(ctx, cases, "c05")
    except Untranslatable as e:
        mism, nshards = [], 0
        ctx.tie_problems.append({"what": "the files found after a crash are outside the model: %s" % e})
    for c, j in mism[:3]:
        o = c["ops"][j]
        what = "correspondence Log.DiskCheck.dcases_mismatches: program %d (%s) differs from the crash model at operation %d (%s%s)" % (
            c["id"], c["profile"], j, o["op"], (" at " + o["point"] + " during " + o["intent"]["op"]) if o["op"] == "crash" else "")
        ctx.tie_problems.append({"what": what, "first": [{"op": {k: v for k, v in o.items() if k != "disk"}, "disk": o.get("disk"),
                                                          "case": {"seed": c["seed"], "id": c["id"], "profile": c["profile"], "maxb": c["maxb"], "nops": len(c["ops"])}}]})
    crashes = [l for l in lines if l.get("k") == "crash"]
    points = {}
    for c in crashes:
        points[c["kind"] + "@" + c["point"]] = points.get(c["kind"] + "@" + c["point"], 0) + 1
    canon = set()
    for c in crashes:
        canon.add(json.dumps([c["seed"], c["crash_at"]]))
    return ctx.finish(
        coverage={"input_distribution": dist, "programs": dist.get("programs", 0), "crash_replays": len(crashes), "crash_points_by_operation": points,
                  "killed_child_comparisons": dist.get("child-kill-compared", 0),
                  "crashes_inside_recovery": {k[7:]: v for k, v in dist.items() if k.startswith("crash2/")},
                  "torn_write_replays": {"log": dist.get("torn/log", 0), "index": dist.get("torn/index", 0),
                                         "compared_with_model": sum(1 for c in cases for o in c["ops"] if o.get("op") == "crash" and o.get("torn"))}, "histories_compared_with_model": len(cases), "case_shards": nshards},
        samples=[{k: v for k, v in c.items() if k not in ("disk", "ops")} for c in crashes[:2]] or [{}],
        rule="generated programs of 6-17 operations (appends, AppendMessageSet, truncations above the HW, retention cleans by messages/bytes, compactions, HW moves and checkpoints, leader-epoch changes, clean reopens; segment sizes 80 B-1 MB so that most programs roll) are first run to completion counting the crash points they pass; every program is then replayed once per crash-point hit (sampled above the per-program cap): the hook stops the operation there, the files are listed, commitlog.New reopens the directory and the result is judged by the property's words (reopen succeeds; offsets strictly increase; every record read back was appended; everything appended and not being removed is there, also through the index; NewestOffset/OldestOffset agree with what is read; HW not above the one before; epoch history increasing, within the log, and attributing to every record its epoch); the interrupted operation is repeated, five more operations and a clean reopen follow under the C01 read-back oracle; for every log/index write hit the crash is replayed once more as a crash inside that write (torn files); every crash whose recovery passed crash points is replayed with the recovery cut short at them (up to 3 per crash); every history is replayed on the Coq crash model (points passed per operation, files after the crash, recovered view, later reads); a watchdog reports operations that do not return; non-trivial = a crash replay; distinct by (program, hit)",
        evaluations=len(crashes), distinct_nontrivial=len(canon), traces=len(cases))
