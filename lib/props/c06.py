"""C06 -- cluster metadata is a deterministic, restart-stable state machine."""
import json
import re
from vcommon import Ctx, coq_N, coq_bool


def num(name):
    """s0 / g1 / c2 -> index; brokers a..d -> 0..3 (order preserving)."""
    if len(name) == 1:
        return ord(name) - ord('a')
    return int(name[1:])


def nl(xs):
    return "[" + "; ".join(coq_N(num(x)) for x in (xs or [])) + "]"


def zl(xs):
    return "[" + "; ".join("(%d)" % x for x in (xs or [])) + "]"


def c_op(o):
    k = o["op"]
    if k == "create":
        return "FCreate %s %d %s" % (coq_N(num(o["s"])), o["n"], nl(o["replicas"]))
    if k == "delete":
        return "FDelete %s" % coq_N(num(o["s"]))
    if k == "pause":
        return "FPause %s %s %s" % (coq_N(num(o["s"])), zl(o["ps"]), coq_bool(o["all"]))
    if k == "resume":
        return "FResume %s %s" % (coq_N(num(o["s"])), zl(o["ps"]))
    if k == "readonly":
        return "FReadonly %s %s %s" % (coq_N(num(o["s"])), zl(o["ps"]), coq_bool(o["ro"]))
    if k in ("shrink", "expand"):
        return "%s %s (%d) %s" % ("FShrink" if k == "shrink" else "FExpand", coq_N(num(o["s"])), o["p"], coq_N(num(o["r"])))
    if k == "leader":
        return "FLeader %s (%d) %s" % (coq_N(num(o["s"])), o["p"], coq_N(num(o["l"])))
    if k == "gcreate":
        return "FGCreate %s %s %s %s" % (coq_N(num(o["g"])), coq_N(num(o["coord"])), coq_N(num(o["c"])), nl(o["ss"]))
    if k == "join":
        return "FJoin %s %s %s" % (coq_N(num(o["g"])), coq_N(num(o["c"])), nl(o["ss"]))
    if k == "leave":
        return "FLeave %s %s" % (coq_N(num(o["g"])), coq_N(num(o["c"])))
    if k == "coord":
        return "FCoord %s %s" % (coq_N(num(o["g"])), coq_N(num(o["coord"])))
    if k == "activity":
        return "FActivity %s" % coq_N(o["i"])
    raise ValueError(k)


def c_obs(o):
    ss = []
    for st in o["streams"]:
        ps = ["mkPObs %s %s %s %s %s %s %s %s %s" % (nl(p["replicas"]), nl(p["isr"]), coq_N(num(p["leader"])), coq_N(p["lepoch"]), coq_N(p["epoch"]),
                                                  coq_bool(p["paused"]), coq_bool(p["pausedProto"]), coq_bool(p["ro"]), coq_bool(p["roProto"]))
              for p in st["parts"]]
        ss.append("(%s, %s, [%s])" % (coq_N(num(st["name"])), coq_bool(st["tomb"]), "; ".join(ps)))
    gs = []
    for g in o["groups"]:
        ms = ["(%s, %s, [%s])" % (coq_N(num(m["id"])), nl(m["streams"]),
                                  "; ".join("(%s, %s)" % (coq_N(num(a["s"])), zl(a["ps"])) for a in m["asg"] if a["ps"]))
              for m in g["members"]]
        gs.append("(%s, %s, %s, [%s])" % (coq_N(num(g["id"])), coq_N(num(g["coord"])), coq_N(g["epoch"]), "; ".join(ms)))
    gens = []
    for st in o["streams"]:
        # the model keeps one "whose data" tag per stream directory; partition 0 exists in every
        # incarnation of a stream (a re-created stream may have more partitions, whose directories are
        # new), so it is the one that is read -- when it is paused its log is closed and nothing is compared
        for p in st["parts"][:1]:
            if not p["paused"]:
                mk = p["marks"]
                if len(mk) == 1 and mk[0].startswith("gen"):
                    gens.append("(%s, %s)" % (coq_N(num(st["name"])), coq_N(int(mk[0][3:]))))
    return "mkObs [%s] [%s] %s [%s]" % ("; ".join(ss), "; ".join(gs), nl(o["disk"]), "; ".join(gens))


def c_case(c):
    rs = ["(%d%%nat, %d%%nat, %s)" % (r["snap"], r["stop"], c_obs(r["obs"])) for r in c["restarts"] if r.get("obs")]
    return "mkFCase [%s]\n  [%s]\n  [%s]" % (";\n   ".join(c_op(o) for o in c["ops"]), ";\n   ".join(c_obs(o) for o in c["obs"]), ";\n   ".join(rs))


def eval_cases(ctx, cases, shard=25):
    jobs = []
    for s in range(0, len(cases), shard):
        part = cases[s:s + shard]
        txt = "From LB Require Import Base.Prelude Meta.Groups Meta.Fsm Meta.FsmCheck.\nOpen Scope Z_scope.\n"
        # sentinel: the model must reject an observation that misses the created stream
        sentinel = "mkFCase [FCreate 0%N 1 [0%N]] [mkObs [] [] [] []] []"
        txt += "Definition CS : list fcase := [\n %s].\n" % ";\n ".join([c_case(c) for c in part] + [sentinel])
        txt += "Definition M := Eval vm_compute in fcases_mismatches fixed CS 0.\nPrint M.\n"
        jobs.append((("cases_c06_%d" % len(jobs), txt), part))
    outs = ctx.coq_eval_many([j[0] for j in jobs], jobs=12)
    mism = []
    for out, (_, part) in zip(outs, jobs):
        if out is None:
            continue
        m = re.search(r"M\s*=\s*(.*?)\n\s*:", out, re.S)
        if not m:
            ctx.tie_problems.append({"what": "could not parse the model's answer", "detail": out[-500:]})
            continue
        trip = [(int(a), int(b), int(c)) for a, b, c in re.findall(r"\(\s*(\d+)(?:%nat)?\s*,\s*\(\s*(\d+)(?:%nat)?\s*,\s*(\d+)(?:%nat)?\s*\)\s*\)", m.group(1))]
        if not any(a == len(part) for a, _, _ in trip):
            ctx.tie_problems.append({"what": "the sentinel case was not rejected by the model evaluation", "detail": m.group(1)[-300:]})
        for a, b, c in trip:
            if a < len(part):
                mism.append((part[a], b, c))
    return mism, len(jobs)


def run(pid, tier, seed, replay):
    ctx = Ctx(pid, tier, seed)
    ctx.trusted.append("modelled, not verified: Raft itself (the FSM is driven through Server.apply / Snapshot / Restore / finishedRecovery exactly as fsm.go's Apply does, on servers that are not replicas, so no partition is started); the goroutine that tells the consumer groups about a deleted stream is waited for after every apply (its scheduling is not modelled); snapshots are persisted at once (a Persist racing with later applies is not modelled)")
    ctx.coq_cone("Properties/C06.v")
    env = {"VERIF_N": 60 if tier == "quick" else 1200}
    lines = ctx.go_driver("server", ["server/c06_test.go"], "^TestVerifC06$", env=env, timeout=3000)
    cases = [l for l in lines if l.get("k") == "fsm"]
    dist = {}
    for l in lines:
        if l.get("k") == "stat":
            dist.update(l["dist"])
        if l.get("k") == "violation":
            ctx.add_violation(l["sig"], l["what"], [l["case"]])
    ok_cases = [c for c in cases if c.get("obs") and len(c["obs"]) == len(c["ops"])]
    mism, nshards = eval_cases(ctx, ok_cases)
    comp = {1: "streams/partitions", 2: "consumer groups", 3: "data directories", 4: "which create's data a directory holds", 8: "the model's precondition rejects an operation the leader's check accepted", 9: "the model rejects an operation the server applied"}
    for c, pos, d in mism[:3]:
        where = "live apply %d (%s)" % (pos, json.dumps(c["ops"][pos - 1])) if pos < 1000 else "rebuild %d (snapshot after %s, stopped after %s)" % (
            pos - 1000, c["restarts"][pos - 1000]["snap"], c["restarts"][pos - 1000]["stop"])
        ctx.tie_problems.append({"what": "correspondence Meta.FsmCheck.fcases_mismatches: history %d differs from the model at %s in %s" % (c["id"], where, comp.get(d, d)),
                                 "first": [{"case": {"id": c["id"], "ops": c["ops"]}}]})
    canon = set()
    nrest = 0
    for c in ok_cases:
        kinds = set(o["op"] for o in c["ops"])
        nrest += len(c["restarts"])
        if "create" in kinds and len(kinds) >= 5 and c["restarts"]:
            canon.add(json.dumps(c["ops"]))
    return ctx.finish(
        coverage={"input_distribution": dist, "histories": len(cases), "rebuilds": nrest, "case_shards": nshards},
        samples=[{"id": c["id"], "ops": c["ops"][:10]} for c in ok_cases[:1]],
        rule="histories of 4-23 metadata operations (create/delete/pause/resume/read-only/ISR shrink/ISR expand/leader change, consumer-group create/join/leave/coordinator change, activity) over 3 stream names, 4 brokers, 2 groups, 3 consumers, each operation accepted by the real precondition check of the metadata leader, applied live on two never-started servers (observations compared after every apply); per history up to 4 rebuilds: snapshot after i (or none), server stopped after m >= i, Restore + replay of i+1..n as recovered entries + finishedRecovery, on the data directory left at m; all observations replayed on the model; non-trivial = a create, >= 5 kinds of operation and at least one rebuild; distinct by operation sequence",
        evaluations=len(cases) + nrest, distinct_nontrivial=len(canon), traces=len(cases))
