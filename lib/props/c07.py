"""C07 -- partition leadership changes are safe and fenced by epochs."""
import json
import re
from vcommon import Ctx, coq_N

CODES = {"stale": 0, "nocand": 1}


def c_list(xs):
    return "[" + "; ".join(xs) + "]"


def c_obs(o, prev_leader):
    k = o["op"]
    if k == "obs":
        return "FObs %s %s %s %s" % (coq_N(o["leader"]), coq_N(o["le"]), coq_N(o["pe"]), c_list([coq_N(x) for x in (o["isr"] or [])]))
    if k == "expire":
        return "FEv FExpire 4%N"
    code = o["code"]
    if code in CODES:
        cn = CODES[code]
    elif code == "ok":
        if k == "report":
            cn = 3 if o["pick"] != prev_leader else 4
        else:
            cn = 5
    else:
        cn = 2
    if k == "report":
        ev = "FReport %s %s %s %s %s" % (coq_N(o["r"]), coq_N(o["ldr"]), coq_N(o["le"]), coq_N(o["i"]), coq_N(o["pick"]))
    elif k == "shrink":
        ev = "FShrink %s %s %s %s" % (coq_N(o["r"]), coq_N(o["ldr"]), coq_N(o["le"]), coq_N(o["i"]))
    else:
        ev = "FExpand %s %s %s %s" % (coq_N(o["r"]), coq_N(o["ldr"]), coq_N(o["le"]), coq_N(o["i"]))
    return "FEv (%s) %s" % (ev, coq_N(cn))


def c_case(c):
    init = c["init"]
    reps = c_list([coq_N(x) for x in init["replicas"]])
    st = "mkF %s %s %s %s %s [] false %s" % (reps, reps, coq_N(init["leader"]), coq_N(init["le"]), coq_N(init["pe"]), coq_N(init["pe"]))
    obs = []
    leader = init["leader"]
    for o in c["ops"]:
        obs.append(c_obs(o, leader))
        if o["op"] == "obs":
            leader = o["leader"]
    return "{| fc_init := %s; fc_obs := [\n  %s] |}" % (st, ";\n  ".join(obs))


def mismatches(ctx, cases, variant, tag):
    txt = "From LB Require Import Base.Prelude Meta.Failover.\n"
    txt += "Definition CS : list fcase := [\n %s].\n" % ";\n ".join(c_case(c) for c in cases)
    txt += "Definition M := Eval vm_compute in fcases_mismatches %s CS 0.\nPrint M.\n" % variant
    out = ctx.coq_eval("cases_c07_" + tag, txt)
    if out is None:
        return None
    m = re.search(r"M\s*=\s*(.*?)\n\s*:", out, re.S)
    if not m:
        return None
    return [(cases[int(a)], int(b)) for a, b in re.findall(r"\(\s*(\d+)(?:%nat)?\s*,\s*(\d+)(?:%nat)?\s*\)", m.group(1))]


def run(pid, tier, seed, replay):
    ctx = Ctx(pid, tier, seed)
    ctx.trusted.append("hashicorp/raft assumed to apply committed entries in index order; the expiry timer is an event of the history (observed), not a clock; the load-based choice among candidates is taken from the observation (any in-sync follower is allowed)")
    ctx.coq_cone("Properties/C07.v")
    env = {"VERIF_N": 120 if tier == "quick" else 2000}
    lines = ctx.go_driver("server", ["server/srv_test.go", "server/c07_test.go"], "^TestVerifC07$", env=env, timeout=1500)
    cases = [l for l in lines if l.get("k") == "fo"]
    for c in cases:
        c["ops"] = c.get("ops") or []
    # a Raft apply that timed out (a stall of the machine: the controller gives up after its deadline) says nothing
    # about whether the change was made: the history is compared up to that call and cut there
    cut = 0
    for c in cases:
        for j, o in enumerate(c["ops"]):
            if "raft operation timed out" in str(o.get("code", "")):
                c["ops"] = c["ops"][:j]
                cut += 1
                break
    dist = {}
    for l in lines:
        if l.get("k") == "stat":
            dist.update(l["dist"])
        if l.get("k") == "violation":
            ctx.add_violation(l["sig"], l["what"], [l["case"]])
    dist["histories-cut-at-a-raft-timeout"] = cut
    fixed = mismatches(ctx, cases, "true true", "fixed")
    variant = "clear=true, eligible-only=true (tree with the fix)"
    mism = fixed
    if fixed:
        pinned = mismatches(ctx, cases, "false false", "pinned")
        if pinned is not None and not pinned:
            variant = "clear=false, eligible-only=false (pinned commit: witnesses survive a failover and are not checked against the ISR)"
            mism = pinned
    if mism is None:
        ctx.tie_problems.append({"what": "could not evaluate the model on the observed histories"})
    elif mism:
        ctx.tie_problems.append({"what": "correspondence Meta.Failover.fcases_mismatches: %d histories differ from both model variants" % len(mism),
                                 "first": [{"case": c, "op_index": j, "op": c["ops"][j]} for c, j in mism[:2]]})
    canon = set()
    for c in cases:
        evs = [o for o in c["ops"] if o["op"] != "obs"]
        leaders = set(o["leader"] for o in c["ops"] if o["op"] == "obs")
        if len(leaders) >= 2 or any(o["op"] == "expire" for o in evs):
            canon.add(json.dumps([c["init"]["replicas"], [[o["op"], o.get("r"), o.get("ldr"), o.get("le"), o.get("code")] for o in evs]]))
    return ctx.finish(
        coverage={"input_distribution": dist, "histories": len(cases), "model_variant_matched": variant},
        samples=cases[:1],
        rule="sequences of leader reports (from replicas, repeated, from non-replicas; current and stale (leader, epoch) pairs), ISR shrink/expand requests and timer expiries against a single-node controller and a stream with 2-5 phantom replicas; after every call the return code and the resulting leader / leader epoch / partition epoch / ISR are compared with the model; non-trivial = at least one election or expiry; distinct by event sequence",
        evaluations=len(cases), distinct_nontrivial=len(canon), traces=len(cases))
