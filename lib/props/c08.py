"""C08 -- compaction keeps the latest value of every key and changes nothing else."""
import json
import os
from vcommon import Ctx
from logcases import eval_log_cases


def run(pid, tier, seed, replay):
    ctx = Ctx(pid, tier, seed)
    ctx.coq_cone("Properties/C08.v")
    env = {"VERIF_PROFILE": "c08", "VERIF_N": 170 if tier == "quick" else 4000}
    if replay:
        rp = json.load(open(replay))
        cf = os.path.join(ctx.work, "replay_cases.jsonl")
        with open(cf, "w") as f:
            for c in rp.get("cases", []):
                f.write(json.dumps(c) + "\n")
        env["VERIF_REPLAY_CASES"] = cf
    lines = ctx.go_driver("server/commitlog", ["commitlog/logdrv_test.go"], "^TestVerifLog$", env=env, timeout=1200)
    cases = [l for l in lines if l.get("k") == "log"]
    dist = {}
    for l in lines:
        if l.get("k") == "stat":
            dist.update(l["dist"])
        if l.get("k") == "violation":
            ctx.add_violation(l["sig"], l["what"], [l["case"]])
    mism, nshards = eval_log_cases(ctx, cases, "c08")
    if mism:
        ctx.tie_problems.append({"what": "correspondence Log.Check.lcases_mismatches: %d histories differ from the model" % len(mism),
                                 "first": [{"case": c, "op_index": j, "op": c["ops"][j]} for c, j in mism[:2]]})
    canon = set()
    for c in cases:
        ops = c["ops"]
        removed = False
        for i, o in enumerate(ops):
            if o["op"] == "cleanc" and 0 < i < len(ops) - 1 and ops[i - 1]["op"] == "layout" and ops[i + 1]["op"] == "layout":
                if sum(x[1] for x in ops[i + 1]["lay"]) < sum(x[1] for x in ops[i - 1]["lay"]):
                    removed = True
        if removed:
            canon.add(json.dumps([c["maxb"], [[o["op"], o.get("h"), len(o.get("msgs") or [])] for o in ops if o["op"] in ("append", "hw", "cleanc", "reopen")]]))
    return ctx.finish(
        coverage={"input_distribution": dist, "histories": len(cases), "case_shards": nshards},
        samples=cases[:1],
        rule="histories of keyed appends (key pools with nil, empty and short keys), HW moves, reopen and Clean() with Compact=true and 1/2/10 workers over segment limits 70..220 bytes; after each compaction the layout and a full read-back judged against an independently computed survivor set; at the end forward readers from every boundary and reverse readers from EVERY offset (-1..newest+1), committed and uncommitted, plus random stop offsets; non-trivial = a compaction that removed at least one record; distinct by (limit, op sequence)",
        evaluations=len(cases), distinct_nontrivial=len(canon), traces=len(cases))
