"""C09 -- retention removes only whole oldest segments, no more than the limits require."""
import json
import os
from vcommon import Ctx
from logcases import eval_log_cases


def run(pid, tier, seed, replay):
    ctx = Ctx(pid, tier, seed)
    ctx.coq_cone("Properties/C09.v")
    env = {"VERIF_PROFILE": "c09", "VERIF_N": 250 if tier == "quick" else 4000}
    if replay:
        rp = json.load(open(replay))
        cf = os.path.join(ctx.work, "replay_cases.jsonl")
        with open(cf, "w") as f:
            for c in rp.get("cases", []):
                f.write(json.dumps(c) + "\n")
        env["VERIF_REPLAY_CASES"] = cf
    lines = ctx.go_driver("server/commitlog", ["commitlog/logdrv_test.go"], "^TestVerifLog$", env=env, timeout=1200)
    cases = [l for l in lines if l.get("k") == "log"]
    dist = {}
    for l in lines:
        if l.get("k") == "stat":
            dist.update(l["dist"])
        if l.get("k") == "violation":
            ctx.add_violation(l["sig"], l["what"], [l["case"]])
    mism, nshards = eval_log_cases(ctx, cases, "c09")
    if mism:
        ctx.tie_problems.append({"what": "correspondence Log.Check.lcases_mismatches: %d histories differ from the model" % len(mism),
                                 "first": [{"case": c, "op_index": j, "op": c["ops"][j]} for c, j in mism[:2]]})
    canon = set()
    removed = 0
    for c in cases:
        ops = c["ops"]
        key = []
        for i, o in enumerate(ops):
            if o["op"] == "clean" and i > 0 and i + 1 < len(ops) and ops[i - 1]["op"] == "layout" and ops[i + 1]["op"] == "layout":
                if len(ops[i + 1]["lay"]) < len(ops[i - 1]["lay"]):
                    removed += 1
                    key.append([o["ttl"], ops[i - 1]["lay"]])
        if key:
            canon.add(json.dumps([c["ret_bytes"], c["ret_msgs"], c["ret_age"], key]))
    return ctx.finish(
        coverage={"cleans_that_removed_segments": removed, "input_distribution": dist, "histories": len(cases), "case_shards": nshards},
        samples=cases[:1],
        rule="histories of appends, reopen and Clean() under the six combinations of message / byte / age limits (age cut-off pinned through computeTTL to points between the written timestamps), segment limits 70..220 bytes, with the segment layout (base, count, bytes) observed before and after every Clean and readers from all boundaries; non-trivial = a Clean that removed at least one segment; distinct by (limits, cut-off, layout before the Clean)",
        evaluations=len(cases), distinct_nontrivial=len(canon), traces=len(cases))
