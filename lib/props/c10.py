"""C10 -- a subscription delivers exactly the requested range."""
import json
from vcommon import Ctx
from logcases import eval_log_cases


def run(pid, tier, seed, replay):
    ctx = Ctx(pid, tier, seed)
    ctx.trusted.append("the partition log is shaped through the commit log's own API (Append, OverrideHighWatermark, Clean, SetReadonly) on a live single-node server; gRPC and the API handler around partition.Subscribe are not exercised here (C15 invokes the handler)")
    ctx.coq_cone("Properties/C10.v")
    env = {"VERIF_N": 40 if tier == "quick" else 600}
    lines = ctx.go_driver("server", ["server/srv_test.go", "server/c13_test.go", "server/c10_test.go"], "^TestVerifC10$", env=env, timeout=1500)
    cases = [l for l in lines if l.get("k") == "log"]
    dist = {}
    for l in lines:
        if l.get("k") == "stat":
            dist.update(l["dist"])
        if l.get("k") == "violation":
            ctx.add_violation(l["sig"], l["what"], [l["case"]])
    mism, nshards = eval_log_cases(ctx, cases, "c10", shard=10)
    if mism:
        ctx.tie_problems.append({"what": "correspondence Log.Check.lcases_mismatches (Api.Range.subscribe): %d shapes differ from the model" % len(mism),
                                 "first": [{"op_index": j, "op": c["ops"][j], "profile": c["profile"]} for c, j in mism[:3]]})
    nsub = 0
    canon = set()
    for c in cases:
        for o in c["ops"]:
            if o["op"] == "sub":
                nsub += 1
                if o.get("offs"):
                    canon.add(json.dumps([c["id"], o["sk"], o["sa"], o["tk"], o["ta"], o["rev"]]))
    return ctx.finish(
        coverage={"input_distribution": dist, "log_shapes": len(cases), "subscriptions": nsub, "case_shards": nshards},
        samples=[{"profile": c["profile"], "ops": c["ops"][-3:]} for c in cases[:2]],
        rule="log shapes (dense multi-segment, single segment, compacted-sparse, retention-trimmed, empty, read-only, sparse read-only; HW at or below the end) built on a live partition, each queried with 14 requests drawn from start {offset, earliest, latest, new-only, timestamp at/between/outside message times} x stop {on cancel, offset, latest, timestamp} x {forward, reverse}; delivered offsets and end status compared with the model and with the documented range; non-trivial = a request that delivered at least one message; distinct by (shape, request)",
        evaluations=nsub, distinct_nontrivial=len(canon), traces=len(cases))
