"""C11 -- a cursor fetch returns the last cursor that was stored."""
import json
import re
from vcommon import Ctx, coq_N, coq_bool


def cz(n):
    return "(%d)" % n


def kv(l):
    return "[" + "; ".join("(%s, %s)" % (coq_N(k), cz(v)) for k, v in (l or [])) + "]"


def c_ev(o):
    k = o["op"]
    if k == "set":
        return "TSet %s %s %s" % (coq_N(o["k"]), cz(o["v"]), coq_bool(o["ok"]))
    if k == "get":
        return "TGet %s %s %s" % (coq_N(o["k"]), coq_bool(o["scan"]), cz(o["got"]))
    if k == "evict":
        return "TEvict %s" % coq_N(o["k"])
    if k == "purge":
        return "TPurge"
    if k == "clean":
        return "TClean %s" % kv(o["log"])
    if k == "obs":
        return "TObs %s %s" % (kv(o["cache"]), kv(o["log"]))
    raise ValueError(k)


def run(pid, tier, seed, replay):
    ctx = Ctx(pid, tier, seed)
    ctx.trusted.append("modelled, not verified: the cursors partition is a single-node, single-replica commit log (ALL-policy publish = append + commit); the lock in the interleaving model is the sync.RWMutex of cursorManager, its fairness and Go scheduling are not modelled; leader change of the cursors partition on a multi-node cluster is represented by the cache purge it causes")
    ctx.coq_cone("Properties/C11.v")
    env = {"VERIF_N": 5 if tier == "quick" else 40, "VERIF_ROUNDS": 6 if tier == "quick" else 60}
    lines = ctx.go_driver("server", ["server/srv_test.go", "server/partdrv_test.go", "server/c02_test.go", "server/c11_test.go"], "^TestVerifC11$", env=env, timeout=3000)
    cases = [l for l in lines if l.get("k") == "cur"]
    conc = [l for l in lines if l.get("k") == "conc"]
    for c in cases:
        c["evs"] = c.get("evs") or []
    dist = {}
    for l in lines:
        if l.get("k") == "stat":
            dist.update(l["dist"])
        if l.get("k") == "violation":
            ctx.add_violation(l["sig"], l["what"], [l["case"]])
    txt = "From LB Require Import Base.Prelude Api.Cursors Api.CursorsCheck.\nOpen Scope Z_scope.\n"
    # sentinel: a history the model must reject (fetch answers a value never stored)
    sentinel = "[TSet 1%N (5) true; TGet 1%N false (4)]"
    txt += "Definition CS : list (list tev) := [\n %s].\n" % ";\n ".join(
        ["[" + "; ".join(c_ev(o) for o in c["evs"]) + "]" for c in cases] + [sentinel])
    txt += "Definition M := Eval vm_compute in tcases_mismatches CS 0.\nPrint M.\n"
    out = ctx.coq_eval("cases_c11", txt)
    mism = []
    if out is not None:
        m = re.search(r"M\s*=\s*(.*?)\n\s*:", out, re.S)
        if not m:
            ctx.tie_problems.append({"what": "could not parse the model's answer", "detail": out[-500:]})
        else:
            pairs = [(int(a), int(b)) for a, b in re.findall(r"\(\s*(\d+)(?:%nat)?\s*,\s*(\d+)(?:%nat)?\s*\)", m.group(1))]
            if (len(cases), 1) not in pairs:
                ctx.tie_problems.append({"what": "the sentinel history was not rejected by the model evaluation", "detail": m.group(1)[-300:]})
            for a, b in pairs:
                if a < len(cases):
                    mism.append((cases[a], b))
    for c, j in mism:
        ev = c["evs"][j]
        if ev["op"] == "get":
            ctx.add_violation("fetch-not-last-set", "history %d: FetchCursor for key %d answered %d, which is not the last stored value (event %d)" % (
                c["id"], ev["k"], ev["got"], j), [c])
        elif ev["op"] == "clean":
            ctx.add_violation("clean-lost-latest", "history %d: after a clean of the cursors partition the latest cursor of some key is gone or changed (event %d)" % (c["id"], j), [c])
        else:
            ctx.tie_problems.append({"what": "correspondence Api.CursorsCheck.tcases_mismatches: history %d differs from the model at event %d" % (c["id"], j),
                                     "first": [{"op_index": j, "op": ev, "case": c}]})
    canon = set()
    for c in cases:
        kinds = set(o["op"] for o in c["evs"])
        sets = [o for o in c["evs"] if o["op"] == "set"]
        if len(sets) >= 3 and "get" in kinds and ("clean" in kinds or "purge" in kinds or "evict" in kinds):
            canon.add(json.dumps([[o["op"], o.get("k"), o.get("v"), o.get("got")] for o in c["evs"] if o["op"] != "obs"]))
    nev = sum(len(c["evs"]) for c in cases)
    return ctx.finish(
        coverage={"input_distribution": dist, "histories": len(cases), "events": nev, "concurrent_rounds": len(conc)},
        samples=[{"id": c["id"], "evs": c["evs"][:12]} for c in cases[:1]],
        rule="histories of 40-100 operations on a fresh in-process single-node server (cursors stream with one partition, 700-byte segments; half of the histories with a 3-entry LRU): SetCursor/FetchCursor over 2-10 keys and one never-set key, cache evictions and purges, cache switched off and on, explicit cleans (compaction) of the cursors partition, pause of the cursors stream, server restarts; every fetch result, the log content after every clean and periodic (cache, log) observations are replayed on the model; then concurrent rounds (one writer per key, two readers per key, an evictor) checked by a real-time oracle; non-trivial = >= 3 sets, a fetch and a clean/purge/evict; distinct by event sequence",
        evaluations=len(cases) + len(conc), distinct_nontrivial=len(canon) + len(conc), traces=len(cases) + len(conc))
