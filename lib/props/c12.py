"""C12 -- each partition is assigned to exactly one consumer of a group."""
import json
import os
import re
from vcommon import Ctx, coq_N


def cz(n):
    return "(%d)" % n


def c_op(o):
    k = o["op"]
    if k == "join":
        return "GJoin %s [%s] %s %s" % (coq_N(o["c"]), ";".join(coq_N(s) for s in o["ss"]), coq_N(o["e"]), coq_N(o["res"]))
    if k == "leave":
        return "GLeave %s %s %s" % (coq_N(o["c"]), coq_N(o["e"]), coq_N(o["res"]))
    if k == "sdel":
        return "GSDel %s %s %s" % (coq_N(o["s"]), coq_N(o["e"]), coq_N(o["res"]))
    if k == "parts":
        return "GParts %s %s" % (coq_N(o["s"]), cz(o["n"]))
    if k == "obs":
        rows = ["(%s, %s, [%s])" % (coq_N(c), coq_N(s), ";".join(cz(p) for p in ps)) for c, s, ps in (o["tbl"] or [])]
        return "GObs %s [%s] [%s]" % (coq_N(o["epoch"]), ";".join(coq_N(m) for m in (o["members"] or [])), "; ".join(rows))
    raise ValueError(k)


def c_case(c):
    return "{| gc_parts := [%s]; gc_ops := [\n  %s] |}" % (
        ";".join("(%s, %s)" % (coq_N(s), cz(n)) for s, n in c["parts"]), ";\n  ".join(c_op(o) for o in c["ops"]))


def eval_cases(ctx, cases, shard=100):
    jobs = []
    for s in range(0, len(cases), shard):
        part = cases[s:s + shard]
        txt = "From LB Require Import Base.Prelude Meta.Groups Meta.GroupsCheck.\nOpen Scope Z_scope.\n"
        txt += "Definition CS : list gcase := [\n %s].\n" % ";\n ".join(c_case(c) for c in part)
        txt += "Definition M := Eval vm_compute in gcases_mismatches CS 0.\nPrint M.\n"
        jobs.append((("cases_c12_%d" % len(jobs), txt), part))
    outs = ctx.coq_eval_many([j[0] for j in jobs], jobs=12)
    mism = []
    for out, (_, part) in zip(outs, jobs):
        if out is None:
            continue
        m = re.search(r"M\s*=\s*(.*?)\n\s*:", out, re.S)
        if not m:
            ctx.tie_problems.append({"what": "could not parse the model's answer", "detail": out[-500:]})
            continue
        for a, b in re.findall(r"\(\s*(\d+)(?:%nat)?\s*,\s*(\d+)(?:%nat)?\s*\)", m.group(1)):
            mism.append((part[int(a)], int(b)))
    return mism, len(jobs)


def run(pid, tier, seed, replay):
    ctx = Ctx(pid, tier, seed)
    ctx.coq_cone("Properties/C12.v")
    env = {"VERIF_N": 500 if tier == "quick" else 8000}
    lines = ctx.go_driver("server", ["server/c12_test.go"], "^TestVerifC12$", env=env, timeout=1200)
    cases = [l for l in lines if l.get("k") == "grp"]
    dist = {}
    for l in lines:
        if l.get("k") == "stat":
            dist.update(l["dist"])
        if l.get("k") == "violation":
            ctx.add_violation(l["sig"], l["what"], [l["case"]])
    mism, nshards = eval_cases(ctx, cases)
    if mism:
        ctx.tie_problems.append({"what": "correspondence Meta.GroupsCheck.gcases_mismatches: %d histories differ from the model" % len(mism),
                                 "first": [{"case": c, "op_index": j, "op": c["ops"][j]} for c, j in mism[:2]]})
    canon = set()
    for c in cases:
        ops = [o for o in c["ops"] if o["op"] not in ("obs", "parts")]
        multi = any(o["op"] == "join" and len(set(o["ss"])) > 1 for o in ops)
        kinds = set(o["op"] for o in ops if o["res"] == 0)
        if len(kinds) >= 2 and (multi or len(c["parts"]) == 1):
            canon.add(json.dumps([c["parts"], [[o["op"], o.get("c"), o.get("s"), o.get("ss"), o["res"]] for o in ops]]))
    return ctx.finish(
        coverage={"input_distribution": dist, "histories": len(cases), "case_shards": nshards},
        samples=cases[:1],
        rule="join/leave/stream-deleted sequences (3-16 ops, up to 5 consumers, 1-4 streams with 0-7 partitions, overlapping subscriptions, duplicate stream names in a request, stale epochs) applied to two directly constructed consumerGroup values; after every op the full assignment table, member list and epoch are compared with the model; non-trivial = at least two kinds of successful operations and (a multi-stream join or a single-stream group); distinct by (partition counts, op sequence with results)",
        evaluations=len(cases), distinct_nontrivial=len(canon), traces=len(cases))
