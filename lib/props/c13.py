"""C13 -- only one member of a consumer group consumes a partition at a time."""
import json
import re
from vcommon import Ctx, coq_N, coq_bool


def c_obs(o):
    k = o["op"]
    if k == "sub":
        return "GEv (ESub %s %s) %s" % (coq_N(o["c"]), coq_N(o["e"]), coq_bool(o["acc"]))
    if k == "close":
        return "GEv (EClose %d) true" % o["i"]
    if k == "exit":
        return "GEv (EExit %d) true" % o["i"]
    if k == "slot":
        return "GSlot %s %d %s %s %d" % (coq_bool(o["present"]), max(o["id"], 0), coq_N(o["c"]), coq_N(o["e"]), o["nactive"])
    raise ValueError(k)


def run(pid, tier, seed, replay):
    ctx = Ctx(pid, tier, seed)
    ctx.trusted.append("modelled, not verified: Go scheduling inside Subscribe's critical section and the goroutine that runs the loop; the LTS has one transition per Subscribe call, subscription close and loop return (mutex granularity)")
    ctx.coq_cone("Properties/C13.v")
    env = {"VERIF_N": 150 if tier == "quick" else 3000}
    lines = ctx.go_driver("server", ["server/srv_test.go", "server/c13_test.go"], "^TestVerifC13$", env=env, timeout=1200)
    cases = [l for l in lines if l.get("k") == "slot"]
    for c in cases:
        c["ops"] = c.get("ops") or []
    dist = {}
    for l in lines:
        if l.get("k") == "stat":
            dist.update(l["dist"])
        if l.get("k") == "violation":
            ctx.add_violation(l["sig"], l["what"], [l["case"]])
    txt = "From LB Require Import Base.Prelude Api.GroupSlot.\n"
    txt += "Definition CS : list (list gobs) := [\n %s].\n" % ";\n ".join("[" + "; ".join(c_obs(o) for o in (c["ops"] or [])) + "]" for c in cases)
    txt += "Definition M := Eval vm_compute in slot_mismatches true CS 0.\nPrint M.\n"
    out = ctx.coq_eval("cases_c13", txt)
    mism = []
    if out is not None:
        m = re.search(r"M\s*=\s*(.*?)\n\s*:", out, re.S)
        if not m:
            ctx.tie_problems.append({"what": "could not parse the model's answer", "detail": out[-500:]})
        else:
            for a, b in re.findall(r"\(\s*(\d+)(?:%nat)?\s*,\s*(\d+)(?:%nat)?\s*\)", m.group(1)):
                mism.append((cases[int(a)], int(b)))
    if mism:
        ctx.tie_problems.append({"what": "correspondence Api.GroupSlot.slot_mismatches: %d traces differ from the model" % len(mism),
                                 "first": [{"case": c, "op_index": j, "op": c["ops"][j]} for c, j in mism[:2]]})
    canon = set()
    for c in cases:
        evs = [o for o in c["ops"] if o["op"] != "slot"]
        acc = [o for o in evs if o["op"] == "sub" and o["acc"]]
        if len(acc) >= 2 and any(o["op"] == "exit" for o in evs):
            canon.add(json.dumps([[o["op"], o.get("c"), o.get("e"), o.get("i"), o.get("acc")] for o in evs]))
    return ctx.finish(
        coverage={"input_distribution": dist, "traces": len(cases)},
        samples=cases[:2],
        rule="traces of group subscribes (3 consumer ids; equal, newer and older epochs), subscription closes and forced loop returns on a real partition of a single-node server, each in its own group; after every event the slot (holder, epoch) and the number of active subscriptions are compared with the model; non-trivial = at least two accepted subscribes and a loop return; distinct by event sequence",
        evaluations=len(cases), distinct_nontrivial=len(canon), traces=len(cases))
