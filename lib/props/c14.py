"""C14 -- no NATS payload can crash or confuse the server."""
import json
import os
from vcommon import Ctx, coq_bytes, coq_list, coq_bool, coq_N, parse_nat_lists


def run(pid, tier, seed, replay):
    ctx = Ctx(pid, tier, seed)
    ctx.trusted += [
        "golang/protobuf Unmarshal is not modelled (a Section variable in Codec/Envelope.v); its observed success/failure is an input of the publish-path cases",
        "Codec/Crc32c.v (bitwise CRC-32C) is validated against hash/crc32 on every run; the rejection theorem holds for an arbitrary crc function",
    ]
    ctx.coq_cone("Properties/C14.v")
    env = {"VERIF_N": 2500 if tier == "quick" else 40000}
    if replay:
        rp = json.load(open(replay))
        cf = os.path.join(ctx.work, "replay_cases.jsonl")
        with open(cf, "w") as f:
            for c in rp.get("cases", []):
                f.write(json.dumps(c) + "\n")
        env["VERIF_REPLAY_CASES"] = cf
    lines = ctx.go_driver("server/protocol", ["protocol/c14_test.go"], "^TestVerifC14$", env=env)
    lines += ctx.go_driver("server", ["server/srv_test.go", "server/c14_test.go", "server/c14h_test.go"], "^TestVerifC14(Nats|Handlers)$", env=env)
    hcalls = 0
    for l in lines:
        if l.get("k") == "stat":
            hcalls += sum(v for k, v in l["dist"].items() if k.startswith("handle") and "/" not in k)
    envc = [l for l in lines if l.get("k") == "env"]
    repl = [l for l in lines if l.get("k") == "repl"]
    nats = [l for l in lines if l.get("k") == "nats"]
    crc = [l for l in lines if l.get("k") == "crc"]
    dist = {}
    for l in lines:
        if l.get("k") == "stat":
            for k, v in l["dist"].items():
                dist[k] = dist.get(k, 0) + v
    for l in lines:
        if l.get("k") == "violation":
            if "case" in l:
                ctx.add_violation(l["sig"], l["what"] + " on " + l["case"].get("data", ""), [l["case"]])
            else:
                case = {"k": l.get("case_kind", "env"), "data": l["data"], "ty": l.get("ty", 0)}
                ctx.add_violation("panic:" + l["what"].split(":")[0], l["what"] + " on " + l["data"], [case])
    # correspondence, sharded
    shard = 800
    nshards = 0
    mism = []
    jobs = []
    allc = [("env", c) for c in envc] + [("repl", c) for c in repl] + [("nats", c) for c in nats] + [("crc", c) for c in crc]
    for s in range(0, len(allc), shard):
        part = allc[s:s + shard]
        e = [c for k, c in part if k == "env"]
        r = [c for k, c in part if k == "repl"]
        n = [c for k, c in part if k == "nats"]
        cr = [c for k, c in part if k == "crc"]
        txt = "From LB Require Import Base.Prelude Codec.EnvelopeCheck.\n"
        txt += "Definition E : list env_case := %s.\n" % coq_list(
            ["{| ec_data := %s; ec_ty := %s; ec_cls := %s; ec_payload := %s |}" % (
                coq_bytes(c["data"]), coq_N(c["ty"]), coq_N(c["cls"]), coq_bytes(c["payload"])) for c in e])
        txt += "Definition R : list repl_case := %s.\n" % coq_list(
            ["{| rc_data := %s; rc_cls := %s; rc_epoch := %s; rc_hw := %s; rc_rest := %s |}" % (
                coq_bytes(c["data"]), coq_N(c["cls"]), coq_N(c["epoch"]), coq_N(c["hw"]), coq_bytes(c["rest"])) for c in r])
        txt += "Definition NC : list nats_case := %s.\n" % coq_list(
            ["{| nc_data := %s; nc_pb_ok := %s; nc_kind := %s |}" % (
                coq_bytes(c["data"]), coq_bool(c["pb_ok"]), coq_N(c["kind"])) for c in n])
        txt += "Definition CC : list crc_case := %s.\n" % coq_list(
            ["{| cc_data := %s; cc_crc := %s |}" % (coq_bytes(c["data"]), coq_N(c["crc"])) for c in cr])
        txt += "Definition M := Eval vm_compute in c14_mismatches E R NC CC.\nPrint M.\n"
        jobs.append((("cases_c14_%d" % nshards, txt), (e, r, n, cr)))
        nshards += 1
    outs = ctx.coq_eval_many([j[0] for j in jobs])
    for out, (_, (e, r, n, cr)) in zip(outs, jobs):
        if out is None:
            continue
        res = parse_nat_lists(out, "M")
        if res is None or len(res) != 4:
            ctx.tie_problems.append({"what": "could not parse the model's answer", "detail": out[-500:]})
            continue
        for lst, src in zip(res, (e, r, n, cr)):
            for i in lst:
                mism.append(src[i])
    if mism:
        ctx.tie_problems.append({"what": "correspondence Codec.EnvelopeCheck.c14_mismatches: %d cases differ from the model" % len(mism),
                                 "first_cases": mism[:5]})
    nontriv = set()
    for c in envc:
        if len(c["data"]) >= 16 and c["data"].startswith("b90e43b4"):
            nontriv.add((c["data"], c["ty"]))
    for c in repl + nats:
        if c["data"].startswith("b90e43b4"):
            nontriv.add((c["data"], c.get("ty", -1)))
    samples = [{k: c[k] for k in c if k != "k"} for c in (envc[:1] + envc[-2:] + repl[:1] + nats[:1])]
    return ctx.finish(
        coverage={"input_distribution": dist, "envelope_cases": len(envc), "replication_response_cases": len(repl),
                  "publish_path_cases": len(nats), "crc_samples": len(crc), "case_shards": nshards, "nats_handler_calls": hcalls,
                  "exhaustive_part": "header-length byte 0..255 x flag bit x total length 8..14 (3584 strings)"},
        samples=samples,
        rule="byte strings from a structured generator (valid envelopes of all 15 types, CRC ok/bad, arbitrary header-length/flag/type/version bytes, truncations) plus a random stream; non-trivial = starts with the envelope magic number (gets past the first two checks); distinct by (bytes, type)",
        evaluations=len(allc) + hcalls, distinct_nontrivial=len(nontriv), traces=len(allc))
