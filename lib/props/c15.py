"""C15 -- with ACLs on, an unauthorised call is refused and changes nothing."""
import json
import os
import re
import subprocess
from vcommon import Ctx, VERIF


def run(pid, tier, seed, replay):
    ctx = Ctx(pid, tier, seed)
    ctx.trusted += [
        "translate/authz.go (go/ast, syntax only): the classification of callees into effects / harmless calls is part of the trusted base; unknown calls on the receivers a/p/out/session are emitted as effects; cross-checked by invoking every method in-process",
        "casbin's matcher is the function 'enforce'; extraction of the client id from the TLS certificate (authz.go) is not modelled",
    ]
    p = subprocess.run([os.path.join(VERIF, "bin/gen"), "authz"], stdout=subprocess.PIPE, stderr=subprocess.STDOUT, text=True)
    if p.returncode != 0:
        ctx.tie_problems.append({"what": "translator translate/authz.go failed on the current sources", "detail": p.stdout[-2000:]})
    ctx.checker_cmds.append("bin/gen authz")
    ctx.coq_cone("Properties/C15.v")
    # which generated handlers are guarded (finite list, by computation; counted as an obligation)
    txt = ("From Coq Require Import List String Bool.\nFrom LB Require Import Api.Authz Generated.Handlers.\nImport ListNotations.\n"
           "Definition U := Eval vm_compute in (unguarded handlers, map fst handlers).\nPrint U.\n")
    lock_make = subprocess.run(["make", "-j8", "theories/Generated/Handlers.vo"], cwd=os.path.join(VERIF, "coq"),
                               stdout=subprocess.PIPE, stderr=subprocess.STDOUT, text=True)
    if lock_make.returncode != 0:
        ctx.tie_problems.append({"what": "the regenerated handler terms do not compile", "detail": lock_make.stdout[-1500:]})
    out = ctx.coq_eval("cases_c15", txt)
    unguarded, names = None, []
    if out is not None:
        m = re.search(r"U\s*=\s*\(\s*\[(.*?)\]\s*,\s*\[(.*?)\]\s*\)", out, re.S)
        if m:
            unguarded = re.findall(r'"([^"]*)"', m.group(1))
            names = re.findall(r'"([^"]*)"', m.group(2))
        else:
            ctx.tie_problems.append({"what": "could not parse the list of unguarded handlers", "detail": out[-400:]})
    ctx.obligations += 1
    if unguarded is not None:
        ctx.discharged += 1
    # dynamic run
    lines = ctx.go_driver("server", ["server/srv_test.go", "server/c15_test.go"], "^TestVerifC15$", timeout=600)
    calls = [l for l in lines if l.get("k") == "call"]
    dyn_bad = {}
    for l in lines:
        if l.get("k") == "violation":
            meth = l["case"].get("method", l["sig"])
            dyn_bad[meth.split("(")[0]] = l
    # decide per handler
    for h in (unguarded or []):
        demo = dyn_bad.pop(h, None)
        what = "handler %s can reach an effect or a successful return before a failing authorisation check ends the call" % h
        if demo:
            what += "; demonstrated: " + demo["what"]
        ctx.add_violation("unguarded-handler:" + h, what, [{"k": "handler", "name": h, "demonstration": demo["what"] if demo else None}])
    for meth, l in dyn_bad.items():
        # misbehaved at run time although the generated term is guarded (or is not a handler): the tie is broken AND a failing input exists
        ctx.add_violation(l["sig"], l["what"], [l["case"]])
        if unguarded is not None and meth in names:
            ctx.tie_problems.append({"what": "handler %s is guarded in the generated model but misbehaved when invoked" % meth})
    expected = {"CreateStream", "DeleteStream", "PauseStream", "SetStreamReadonly", "Subscribe", "FetchMetadata", "FetchPartitionMetadata",
                "Publish", "PublishAsync", "PublishToSubject", "SetCursor", "FetchCursor", "JoinConsumerGroup", "LeaveConsumerGroup",
                "FetchConsumerGroupAssignments", "ReportConsumerGroupCoordinator"}
    missing = sorted(expected - set(names))
    if names and missing:
        ctx.tie_problems.append({"what": "the translator did not find the handlers %s in server/api.go" % missing})
    return ctx.finish(
        coverage={"handlers_translated": names, "unguarded_handlers": unguarded, "calls_invoked": [{"method": c["method"], "rejected": c["rejected"], "effects": c["effects"]} for c in calls],
                  "programs": len(names)},
        samples=calls[:2] or [{}],
        rule="every exported gRPC handler of *apiServer translated to a control-flow term (PublishAsync with publishLoop inlined) and tested for the guarded condition; every method (plus group take-over, resume-on-subscribe, paused-stream publish variants) invoked in-process for a client without any policy entry on a single-node server with streams, messages, a cursor, a paused stream and an authorised group subscriber, then a policy reload that grants and revokes an entry; non-trivial = every handler and every invoked call",
        evaluations=len(names) + len(calls), distinct_nontrivial=len(names) + len(calls), traces=len(calls))
