"""C16 -- a conditional publish lands only at the offset it expected."""
import json
import os
from vcommon import Ctx
from logcases import eval_log_cases


def run(pid, tier, seed, replay):
    ctx = Ctx(pid, tier, seed)
    ctx.coq_cone("Properties/C16.v")
    env = {"VERIF_PROFILE": "c16", "VERIF_N": 250 if tier == "quick" else 4000}
    if replay:
        rp = json.load(open(replay))
        cf = os.path.join(ctx.work, "replay_cases.jsonl")
        with open(cf, "w") as f:
            for c in rp.get("cases", []):
                f.write(json.dumps(c) + "\n")
        env["VERIF_REPLAY_CASES"] = cf
    lines = ctx.go_driver("server/commitlog", ["commitlog/logdrv_test.go"], "^TestVerifLog$", env=env, timeout=1200)
    cases = [l for l in lines if l.get("k") == "log"]
    dist = {}
    for l in lines:
        if l.get("k") == "stat":
            dist.update(l["dist"])
        if l.get("k") == "violation":
            ctx.add_violation(l["sig"], l["what"], [l["case"]])
    mism, nshards = eval_log_cases(ctx, cases, "c16")
    if mism:
        ctx.tie_problems.append({"what": "correspondence Log.Check.lcases_mismatches: %d histories differ from the model" % len(mism),
                                 "first": [{"case": c, "op_index": j, "op": c["ops"][j]} for c, j in mism[:2]]})
    canon = set()
    for c in cases:
        seq = [(o["res"], o["msgs"][0]["exp"]) for o in c["ops"] if o["op"] == "append"]
        if any(r == 1 for r, _ in seq) and any(r == 0 and e != -1 for r, e in seq):
            canon.add(json.dumps([c["maxb"], seq]))
    return ctx.finish(
        coverage={"input_distribution": dist, "histories": len(cases), "case_shards": nshards},
        samples=cases[:1],
        rule="sequences of single-message conditional appends on a commit log with ConcurrencyControl (expected offset waived / exact / stale / future / negative), with reopen in between and segment limits 70..300 bytes; non-trivial = at least one rejected and one accepted conditional append; distinct by (limit, sequence of (result, expected offset))",
        evaluations=len(cases), distinct_nontrivial=len(canon), traces=len(cases))
