"""C16 -- a conditional publish lands only at the offset it expected."""
import json
import os
from vcommon import Ctx
from logcases import eval_log_cases


def run(pid, tier, seed, replay):
    ctx = Ctx(pid, tier, seed)
    ctx.coq_cone("Properties/C16.v")
    env = {"VERIF_PROFILE": "c16", "VERIF_N": 250 if tier == "quick" else 4000}
    if replay:
        rp = json.load(open(replay))
        cf = os.path.join(ctx.work, "replay_cases.jsonl")
        with open(cf, "w") as f:
            for c in rp.get("cases", []):
                f.write(json.dumps(c) + "\n")
        env["VERIF_REPLAY_CASES"] = cf
    lines = ctx.go_driver("server/commitlog", ["commitlog/logdrv_test.go"], "^TestVerifLog$", env=env, timeout=1200)
    cases = [l for l in lines if l.get("k") == "log"]
    dist = {}
    for l in lines:
        if l.get("k") == "stat":
            dist.update(l["dist"])
        if l.get("k") == "violation":
            ctx.add_violation(l["sig"], l["what"], [l["case"]])
    # server level: the message loop in front of the log (batching, nacks, acks) on partitions with
    # concurrency control; the same driver and model as C04
    import importlib
    c04mod = importlib.import_module("props.c04")
    slines = ctx.go_driver("server", ["server/srv_test.go", "server/partdrv_test.go", "server/c04_test.go"], "^TestVerifC04$",
                           env={"VERIF_N": 3 if tier == "quick" else 40, "VERIF_CC_ONLY": 1}, timeout=6000)
    srv_cases = [l for l in slines if l.get("k") == "ack"]
    for l in slines:
        if l.get("k") == "stat":
            dist.update({"server/" + k: v for k, v in l["dist"].items()})
        if l.get("k") == "violation" and l.get("prop") == "C16":
            ctx.add_violation(l["sig"], l["what"], [l["case"]])
    if srv_cases:
        txt = "From LB Require Import Base.Prelude Repl.Acks.\nOpen Scope Z_scope.\n"
        sentinel = "mkLCase [0%N; 1%N] 1%nat false [(LPublish [mkMsg 1%N PAll false (-1)], mkLObs 0 0 [(0%N, 0); (1%N, (-1))] [(1%N, 0, 0%nat)])]"
        txt += "Definition CS : list lcase := [\n %s].\n" % ";\n ".join([c04mod.c_case(c) for c in srv_cases] + [sentinel])
        txt += "Definition M := Eval vm_compute in lcases_mismatches CS 0.\nPrint M.\n"
        out = ctx.coq_eval("cases_c16_srv", txt)
        if out is not None:
            import re
            m = re.search(r"M\s*=\s*(.*?)\n\s*:", out, re.S)
            pairs = [(int(a), int(b)) for a, b in re.findall(r"\(\s*(\d+)(?:%nat)?\s*,\s*(\d+)(?:%nat)?\s*\)", m.group(1))] if m else None
            if pairs is None or (len(srv_cases), 0) not in pairs:
                ctx.tie_problems.append({"what": "the server-level model evaluation could not be parsed or misses the sentinel", "detail": out[-300:]})
            else:
                for a, b in pairs:
                    if a < len(srv_cases):
                        c = srv_cases[a]
                        ctx.tie_problems.append({"what": "correspondence Repl.Acks.lcases_mismatches (concurrency-control partitions): history %d differs from the model after step %d" % (c["id"], b),
                                                 "first": [{"step": c["steps"][b], "case": {"id": c["id"], "steps": c["steps"][:b + 1]}}]})
                        break
    # API level: unary Publish, PublishAsync sessions and racing publishers; the oracle is the property's rule
    alines = ctx.go_driver("server", ["server/srv_test.go", "server/partdrv_test.go", "server/c16_test.go"], "^TestVerifC16Api$",
                           env={"VERIF_N": 5 if tier == "quick" else 60}, timeout=3000)
    api_cases = [l for l in alines if l.get("k") == "occ"]
    # ... and the same histories against the model: every API call is a step LApi of Repl.Acks on a single-replica
    # partition with concurrency control; log end, HW and every answer received so far are compared after each call
    if api_cases:
        def a_case(c):
            st = []
            for s in c["steps"]:
                ms = "; ".join("mkMsgE %d%%N %s %s (%d) false" % (m["corr"], c04mod.POL[m["policy"]], "true" if m.get("large") else "false", m["expected"]) for m in s["msgs"])
                ans = "; ".join("(%d%%N, (%d), %d%%nat)" % (a["corr"], a["off"] if a["kind"] == 0 else 0, a["kind"]) for a in sorted(s["answers"], key=lambda a: a["corr"]))
                st.append("(LApi [%s], mkLObs (%d) (%d) [(0%%N, (%d))] [%s])" % (ms, s["newest"], s["hw"], s["newest"], ans))
            return "mkLCase [0%%N] 1%%nat true [\n   %s]" % ";\n   ".join(st)
        txt = "From LB Require Import Base.Prelude Repl.Acks.\nOpen Scope Z_scope.\n"
        sentinel = "mkLCase [0%N] 1%nat true [(LApi [mkMsgE 1%N PNone false (-1) false], mkLObs 0 0 [(0%N, 0)] [(1%N, 0, 0%nat)])]"
        txt += "Definition CS : list lcase := [\n %s].\n" % ";\n ".join([a_case(c) for c in api_cases] + [sentinel])
        txt += "Definition M := Eval vm_compute in lcases_mismatches CS 0.\nPrint M.\n"
        out = ctx.coq_eval("cases_c16_api", txt)
        if out is not None:
            import re
            m = re.search(r"M\s*=\s*(.*?)\n\s*:", out, re.S)
            pairs = [(int(a), int(b)) for a, b in re.findall(r"\(\s*(\d+)(?:%nat)?\s*,\s*(\d+)(?:%nat)?\s*\)", m.group(1))] if m else None
            if pairs is None or (len(api_cases), 0) not in pairs:
                ctx.tie_problems.append({"what": "the API-level model evaluation could not be parsed or misses the sentinel (a NONE publish acknowledged on a stream with concurrency control)", "detail": out[-300:]})
            else:
                for a, b in pairs:
                    if a < len(api_cases):
                        c = api_cases[a]
                        ctx.tie_problems.append({"what": "correspondence Repl.Acks.lcases_mismatches (API calls, LApi): history %d differs from the model after call %d" % (c["id"], b),
                                                 "first": [{"step": c["steps"][b], "case": {"id": c["id"], "batch": c["batch"], "steps": c["steps"][:b + 1]}}]})
                        break
    for l in alines:
        if l.get("k") == "stat":
            dist.update({"api/" + k: v for k, v in l["dist"].items()})
        if l.get("k") == "violation":
            ctx.add_violation(l["sig"], l["what"], [l["case"]])
    ctx.coverage["api_histories"] = len(api_cases)
    mism, nshards = eval_log_cases(ctx, cases, "c16")
    if mism:
        ctx.tie_problems.append({"what": "correspondence Log.Check.lcases_mismatches: %d histories differ from the model" % len(mism),
                                 "first": [{"case": c, "op_index": j, "op": c["ops"][j]} for c, j in mism[:2]]})
    canon = set()
    for c in cases:
        seq = [(o["res"], o["msgs"][0]["exp"]) for o in c["ops"] if o["op"] == "append"]
        if any(r == 1 for r, _ in seq) and any(r == 0 and e != -1 for r, e in seq):
            canon.add(json.dumps([c["maxb"], seq]))
    return ctx.finish(
        coverage={"input_distribution": dist, "histories": len(cases), "case_shards": nshards, "server_histories": len(srv_cases)},
        samples=cases[:1],
        rule="server level: publishes with waived/right/wrong expected offsets and all ack policies, alone and in groups, to partitions with concurrency control led by a real server (followers played by the driver), replayed on the ack model and checked for refused unconditional publishes. Log level: sequences of single-message conditional appends on a commit log with ConcurrencyControl (expected offset waived / exact / stale / future / negative), with reopen in between and segment limits 70..300 bytes; non-trivial = at least one rejected and one accepted conditional append; distinct by (limit, sequence of (result, expected offset))",
        evaluations=len(cases), distinct_nontrivial=len(canon), traces=len(cases))
