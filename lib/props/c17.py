"""C17 -- encrypted streams never store plaintext and always return it."""
import json
import os
from vcommon import Ctx, coq_bytes, coq_bool, coq_N, parse_nat_lists


def run(pid, tier, seed, replay):
    ctx = Ctx(pid, tier, seed)
    ctx.trusted += [
        "AES-GCM (Go crypto) and RFC 5649 key wrap (tink KWP) are Section variables: correctness (open/unwrap invert seal/wrap) and ciphertext integrity are HYPOTHESES of the round-trip and tamper theorems, not proved",
        "'the stored bytes never contain the value in clear' is a confidentiality claim about AES-GCM; it is only checked empirically (values >= 16 bytes) and is not a theorem",
    ]
    ctx.coq_cone("Properties/C17.v")
    env = {"VERIF_N": 12 if tier == "quick" else 120}
    if replay:
        rp = json.load(open(replay))
        cf = os.path.join(ctx.work, "replay_cases.jsonl")
        with open(cf, "w") as f:
            for c in rp.get("cases", []):
                f.write(json.dumps(c) + "\n")
        env["VERIF_REPLAY_CASES"] = cf
    lines = ctx.go_driver("server/encryption", ["encryption/c17_test.go"], "^TestVerifC17$", env=env, timeout=900)
    cases = [l for l in lines if l.get("k") == "enc"]
    # server level: encrypted streams under the three batching configurations
    slines = ctx.go_driver("server", ["server/srv_test.go", "server/c17_test.go"], "^TestVerifC17Server$",
                           env={"VERIF_N": 2 if tier == "quick" else 20}, timeout=3000)
    srv_cases = [l for l in slines if l.get("k") == "encsrv"]
    dist = {}
    for l in slines:
        if l.get("k") == "stat":
            dist.update({"server/" + k: v for k, v in l["dist"].items()})
        if l.get("k") == "violation":
            ctx.add_violation(l["sig"], l["what"], [l["case"]])
    for l in lines:
        if l.get("k") == "stat":
            dist.update(l["dist"])
        if l.get("k") == "violation":
            ctx.add_violation(l["sig"], l["what"] + " on " + l["case"]["data"][:80], [l["case"]])
    shard = 1000
    jobs = []
    for s in range(0, len(cases), shard):
        part = cases[s:s + shard]
        txt = "From LB Require Import Base.Prelude Codec.EncFrame.\n"
        txt += "Definition CS : list enc_case := [\n %s].\n" % ";\n ".join(
            "{| en_data := %s; en_unwrap_ok := %s; en_key_ok := %s; en_open_ok := %s; en_plain := %s; en_cls := %s |}" % (
                coq_bytes(c["data"]), coq_bool(c["unwrap_ok"]), coq_bool(c["key_ok"]), coq_bool(c["open_ok"]),
                coq_bytes(c["plain"]), coq_N(c["cls"])) for c in part)
        txt += "Definition M := Eval vm_compute in (enc_mismatches true CS, enc_mismatches true [{| en_data := []; en_unwrap_ok := false; en_key_ok := false; en_open_ok := false; en_plain := []; en_cls := 0 |}]).\nPrint M.\n"
        jobs.append((("cases_c17_%d" % len(jobs), txt), part))
    outs = ctx.coq_eval_many([j[0] for j in jobs])
    mism = []
    for out, (_, part) in zip(outs, jobs):
        if out is None:
            continue
        res = parse_nat_lists(out, "M")
        if res is None or len(res) != 2 or res[1] != [0]:
            ctx.tie_problems.append({"what": "the model's answer could not be parsed or misses the sentinel", "detail": out[-300:]})
            continue
        mism += [part[i] for i in res[0]]
    if mism:
        ctx.tie_problems.append({"what": "correspondence Codec.EncFrame.enc_mismatches: %d reads differ from the model" % len(mism), "first": mism[:3]})
    nontriv = set(c["data"] for c in cases if c.get("class") in ("sealed", "keysize-byte", "bitflip", "truncated", "other-master-key", "extended"))
    return ctx.finish(
        coverage={"input_distribution": dist, "reads": len(cases), "server_streams": len(srv_cases), "server_messages": sum(c["stored"] for c in srv_cases)},
        samples=[{k: c[k] for k in c if k != "k"} for c in cases[2:4]],
        rule="server level: encrypted streams on single-node servers without batching, with batches and with batches filled while waiting on the batch timer (the three receive sites of the message loop); nil/empty/1-byte/marker/long/random values published in concurrent bursts and one by one; the raw log must not hold a value in clear and must open to it, a subscriber must receive exactly the published bytes. Package level: values (empty, 1 byte, 16-32 bytes, 200 bytes, repetitive text, random) sealed with the real handler; for each sealed form: the untouched read, a read under a second master key, all 255 other values of the key-size byte, one flipped bit at every other position, every truncation, appended bytes; plus empty/nil/random inputs; non-trivial = derived from a sealed value; distinct by bytes",
        evaluations=len(cases), distinct_nontrivial=len(nontriv), traces=len(cases))
