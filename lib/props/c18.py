"""C18 -- the activity stream lists metadata changes in commit order, at least once."""
import json
import re
from vcommon import Ctx

EVENT_OPS = {"CREATE_STREAM", "DELETE_STREAM", "PAUSE_STREAM", "RESUME_STREAM", "SET_STREAM_READONLY",
             "CREATE_CONSUMER_GROUP", "JOIN_CONSUMER_GROUP", "LEAVE_CONSUMER_GROUP"}


def c_case(c):
    hist = {int(e["i"]): e for e in (c["raft"] or [])}
    last = max(hist) if hist else 0
    ents = []
    for i in range(1, last + 1):
        e = hist.get(i)
        if e is None:
            ents.append("ENoop")
        elif e["op"] == "PUBLISH_ACTIVITY":
            ents.append("ERec %d" % e["pub"])
        else:
            ents.append("ECmd %s" % ("true" if e["op"] in EVENT_OPS else "false"))
    return "([%s], [%s])" % ("; ".join(ents), "; ".join(str(int(e["id"])) for e in (c["events"] or [])))


def run(pid, tier, seed, replay):
    ctx = Ctx(pid, tier, seed)
    ctx.trusted.append("modelled, not verified: Raft (log store, snapshots, commit index) and the activity partition's own publish path; one controller (single-node cluster), leadership changes are leadershipLost/leadershipAcquired called in-process; log compaction is only exercised when the dispatcher has caught up (the model's compact_ok: Raft's trailing-log allowance of 10240 entries is what keeps unpublished entries in the log in production); publish failures are injected by making the activity partition read-only, a recorded-index failure cannot be injected (the model covers it)")
    ctx.coq_cone("Properties/C18.v")
    env = {"VERIF_N": 5 if tier == "quick" else 60}
    lines = ctx.go_driver("server", ["server/srv_test.go", "server/c18_test.go"], "^TestVerifC18$", env=env, timeout=6000)
    cases = [l for l in lines if l.get("k") == "act"]
    dist = {}
    for l in lines:
        if l.get("k") == "stat":
            dist.update(l["dist"])
        if l.get("k") == "violation":
            ctx.add_violation(l["sig"], l["what"], [l["case"]])
    txt = "From LB Require Import Base.Prelude Api.Activity.\n"
    # sentinel: event 3 delivered before event 1 was ever seen
    sentinel = "([ECmd true; ENoop; ECmd true], [3; 1])"
    txt += "Definition CS : list (list entry * list nat) := [\n %s].\n" % ";\n ".join([c_case(c) for c in cases] + [sentinel])
    txt += "Definition M := Eval vm_compute in act_mismatches CS 0.\nPrint M.\n"
    out = ctx.coq_eval("cases_c18", txt)
    if out is not None:
        m = re.search(r"M\s*=\s*(.*?)\n\s*:", out, re.S)
        if not m:
            ctx.tie_problems.append({"what": "could not parse the model's answer", "detail": out[-500:]})
        else:
            pairs = [(int(a), int(b)) for a, b in re.findall(r"\(\s*(\d+)(?:%nat)?\s*,\s*(\d+)(?:%nat)?\s*\)", m.group(1))]
            if (len(cases), 1) not in pairs:
                ctx.tie_problems.append({"what": "the sentinel case was not rejected by the model evaluation", "detail": m.group(1)[-300:]})
            what = {1: "an event id that is no operation's index, or a first delivery out of commit order",
                    2: "a committed operation whose event was never delivered although the dispatcher had caught up",
                    3: "an index recorded as published (PUBLISH_ACTIVITY) whose event is not in the stream"}
            for a, b in pairs:
                if a < len(cases):
                    ctx.add_violation("model-check-%d" % b, "history %d: %s (Api.Activity.act_mismatches, the predicate the C18 theorems establish for every schedule of the model)" % (cases[a]["id"], what[b]), [cases[a]])
    canon = set()
    nev = 0
    for c in cases:
        kinds = set(o["op"] for o in c["sched"])
        nev += len(c["events"] or [])
        if len(c["events"] or []) >= 5 and kinds & {"restart", "leader-change", "snapshot", "block"}:
            canon.add(json.dumps([[o["op"], o.get("s"), o.get("g"), o.get("c")] for o in c["sched"]]))
    return ctx.finish(
        coverage={"input_distribution": dist, "histories": len(cases), "events_read": nev},
        samples=[{"id": c["id"], "sched": c["sched"][:8], "events": (c["events"] or [])[:8]} for c in cases[:1]],
        rule="per history a fresh in-process single-node server with the activity stream enabled: 10-23 actions -- create/delete/pause/read-only stream, join/leave consumer group through the API, periods in which the activity partition refuses publishes (dispatcher retries with back-off), controller stepdown + promotion, Raft snapshot with 0-2 trailing entries (log compaction), clean restart; two thirds of the histories wait for the dispatcher after every action, the others do not; at the end the activity stream is read from the start and compared with every command entry ever seen in the Raft log, by a direct oracle and by the model's predicates; non-trivial = >= 5 events and at least one fault; distinct by action sequence",
        evaluations=len(cases), distinct_nontrivial=len(canon), traces=len(cases))
