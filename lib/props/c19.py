"""C19 -- telemetry can be switched off and never carries user data."""
import json
import os
import re
import subprocess
from vcommon import Ctx, VERIF, COQ


def run(pid, tier, seed, replay):
    ctx = Ctx(pid, tier, seed)
    ctx.trusted += [
        "translate/telemetry.go (go/ast, syntax only) is trusted to report the payload struct tags, the selector expressions read by collectPayload/sendTelemetry, the guards around telemetry.New / Start in server.go and the importers of net/http; cross-checked dynamically by the recorder runs",
        "'no request is ever made' is established for the collector (the only net/http client in the tree) by replacing its transport; the OS network stack is not observed",
    ]
    # 1. regenerate the model from the current sources
    p = subprocess.run([os.path.join(VERIF, "bin/gen"), "telemetry"], stdout=subprocess.PIPE, stderr=subprocess.STDOUT, text=True)
    if p.returncode != 0:
        ctx.tie_problems.append({"what": "translator translate/telemetry.go failed on the current sources", "detail": p.stdout[-2000:]})
    ctx.checker_cmds.append("bin/gen telemetry")
    ctx.coq_cone("Properties/C19.v")
    # 2. dynamic runs
    lines = ctx.go_driver("server/telemetry", ["telemetry/c19_test.go"], "^TestVerifC19Collector$", timeout=300)
    lines += ctx.go_driver("server", ["server/srv_test.go", "server/c19_test.go"], "^TestVerifC19Server$", timeout=600)
    for l in lines:
        if l.get("k") == "violation":
            ctx.add_violation(l["sig"], l["what"], [l.get("case", {})])
    routes = [l for l in lines if l.get("k") == "route"]
    lives = [l for l in lines if l.get("k") == "life"]
    payloads = [l for l in lines if l.get("k") == "payload"]
    servers = [l for l in lines if l.get("k") == "server"]
    # 3. correspondence: generated key tree vs the keys actually sent; model's resolve vs NewConfig
    gen = open(os.path.join(COQ, "theories/Generated/Telemetry.v")).read()
    m = re.search(r"Definition payload_keys : list string := \[(.*?)\]\.", gen)
    gen_keys = sorted(re.findall(r'"([^"]*)"', m.group(1))) if m else None
    for pl in payloads:
        if gen_keys is None or sorted(pl["keys"]) != gen_keys:
            ctx.tie_problems.append({"what": "the JSON keys of a recorded report differ from the generated key tree", "sent": pl["keys"], "generated": gen_keys})
    def b(x):
        return {"": "None", "none": "None", "true": "(Some true)", "false": "(Some false)"}[x]
    if routes:
        txt = "From Coq Require Import List Bool.\nFrom LB Require Import Api.Telemetry.\nImport ListNotations.\n"
        rows = ["(mkCfg %s %s None, %s)" % (b(r["file"]), b(r["env"]), "true" if r["enabled"] else "false") for r in routes]
        txt += "Definition R := [%s].\n" % "; ".join(rows)
        txt += "Definition M := Eval vm_compute in (forallb (fun r => Bool.eqb (resolve true (fst r)) (snd r)) R, forallb (fun r => Bool.eqb (resolve false (fst r)) (snd r)) R).\nPrint M.\n"
        out = ctx.coq_eval("cases_c19", txt)
        variant = "unknown"
        if out is not None:
            mm = re.search(r"M\s*=\s*\((true|false),\s*(true|false)\)", out)
            if not mm:
                ctx.tie_problems.append({"what": "could not parse the model's answer", "detail": out[-300:]})
            elif mm.group(1) == "true":
                variant = "environment variable honoured (tree with the fix)"
            elif mm.group(2) == "true":
                variant = "environment variable ignored (pinned commit)"
            else:
                ctx.tie_problems.append({"what": "NewConfig resolves the telemetry switch differently from both model variants", "routes": routes})
        ctx.coverage["model_variant_matched"] = variant
    nontriv = len([r for r in routes if r["file"] != "" or r["env"] != ""]) + len(lives) + len(servers)
    return ctx.finish(
        coverage={"config_routes": routes, "collector_life_cycles": lives, "server_runs": servers,
                  "reports_recorded": len(payloads), "generated_payload_keys": gen_keys},
        samples=(payloads[:1] + routes[:2]) or [{}],
        rule="all 12 combinations of config file (absent / without telemetry section / enabled true / false) x LIFTBRIDGE_TELEMETRY_ENABLED (unset / true / false) through NewConfig; collector start/tick/stop cycles with the switch off and on behind a recording transport; one server with the switch off and one with it on (streams, subjects, NATS URL, data directory planted) behind a recording default transport; non-trivial = a route that sets something, a life cycle, a server run",
        evaluations=len(routes) + len(lives) + len(servers) + len(payloads), distinct_nontrivial=nontriv, traces=len(routes) + len(lives) + len(servers))
