"""Shared machinery of the /verif checks (see DESIGN.md section 2.2).

One check run = build the property's Coq cone (theorems + Print Assumptions + audit),
run the Go driver(s) against /repo's working tree, judge the observations with the
direct oracle, compare them with the model inside Coq, decide, write evidence.
"""
import fcntl
import json
import os
import re
import shutil
import subprocess
import sys
import time

VERIF = os.path.dirname(os.path.dirname(os.path.abspath(__file__)))
REPO = os.environ.get("VERIF_REPO", "/repo")
COQ = os.path.join(VERIF, "coq")
THEORIES = os.path.join(COQ, "theories")

TRUSTED_BASE_COMMON = [
    "Coq 8.16.1 kernel (coqc, full .vo build); vm_compute (kernel VM) used, native_compute not used",
    "no Axiom/Parameter/Admitted in the development (audited by grep on every run); Print Assumptions under every property theorem must say 'Closed under the global context'",
    "the hand-written Gallina model is tied to /repo by the correspondence harness: Go drivers compiled into the real packages with `go test -overlay`, their observations compared with the model by vm_compute inside Coq",
    "the observation -> Coq-term printer (lib/*.py) and the Go drivers/generators under /verif/harness",
]


def go_env():
    env = dict(os.environ)
    env["GOFLAGS"] = "-mod=mod"
    env["GOPROXY"] = "off"
    # GOTOOLCHAIN=local / GOSUMDB=off cannot build /repo on this image (go.mod needs the cached 1.25.3 switch)
    env.pop("GOTOOLCHAIN", None)
    env.pop("GOSUMDB", None)
    return env


class Ctx:
    def __init__(self, pid, tier, seed, level="proof"):
        self.pid = pid
        self.tier = tier
        self.seed = seed
        self.level = level
        self.t0 = time.time()
        self.work = os.path.join(VERIF, "work", "%s.%d" % (pid, os.getpid()))
        shutil.rmtree(self.work, ignore_errors=True)
        os.makedirs(self.work)
        self.proof_problems = []      # broken proof obligations / audit failures
        self.tie_problems = []        # broken correspondence (mismatch, driver does not build, ...)
        self.violations = []          # concrete failing inputs from the direct oracle
        self.known_seen = []          # open known findings reproduced in this run
        self.infra_restarts = []      # driver runs repeated after a panic of the server that is outside the properties
        self.obligations = 0
        self.discharged = 0
        self.assumptions = []
        self.checker_cmds = []
        self.coverage = {}
        self.trusted = list(TRUSTED_BASE_COMMON)
        self.assume = []
        self.log_lines = []
        self.known = load_known()
        rdir = os.path.join(VERIF, "replays", pid)
        if os.path.isdir(rdir):
            for f in os.listdir(rdir):
                if ("_%s_" % tier) in f:
                    try:
                        os.remove(os.path.join(rdir, f))
                    except OSError:
                        pass

    # ------------------------------------------------------------------ utilities
    def log(self, *a):
        s = " ".join(str(x) for x in a)
        self.log_lines.append(s)
        print(s, flush=True)

    def cleanup(self):
        if not os.environ.get("VERIF_KEEP"):
            shutil.rmtree(self.work, ignore_errors=True)

    # ------------------------------------------------------------------ Coq side
    def cone(self, relfile):
        """Transitive closure of LB imports starting from theories/<relfile>."""
        seen, todo = [], [relfile]
        while todo:
            f = todo.pop()
            if f in seen:
                continue
            seen.append(f)
            try:
                src = open(os.path.join(THEORIES, f)).read()
            except OSError:
                self.proof_problems.append("missing model file %s" % f)
                continue
            for m in re.finditer(r"From\s+LB\s+Require\s+(?:Import|Export)\s+((?:[A-Za-z0-9_]+(?:\.[A-Za-z0-9_]+)*\s*)+)\.", src):
                for mod in m.group(1).split():
                    todo.append(mod.replace(".", "/") + ".v")
        return seen

    def coq_cone(self, prop_rel):
        """Build the cone of theories/<prop_rel>, audit it, parse Print Assumptions."""
        files = self.cone(prop_rel)
        lock = open(os.path.join(COQ, ".lock"), "w")
        fcntl.flock(lock, fcntl.LOCK_EX)
        try:
            if not os.path.exists(os.path.join(COQ, "Makefile")):
                subprocess.run(["coq_makefile", "-f", "_CoqProject", "-o", "Makefile"], cwd=COQ,
                               stdout=subprocess.PIPE, stderr=subprocess.STDOUT)
            target = "theories/" + prop_rel[:-2] + ".vo"
            cmd = ["timeout", "1500", "make", "-j16", target]
            self.checker_cmds.append("cd coq && make -j16 " + target)
            p = subprocess.run(cmd, cwd=COQ, stdout=subprocess.PIPE, stderr=subprocess.STDOUT, text=True)
            built = p.returncode == 0
            if not built:
                self.proof_problems.append("make %s failed:\n%s" % (target, p.stdout[-3000:]))
            # always re-run the property file itself so that Print Assumptions output is fresh
            out = ""
            if built:
                cmd2 = ["timeout", "600", "coqc", "-Q", "theories", "LB", "-w",
                        "-notation-overridden,-deprecated-hint-without-locality,-deprecated-instance-without-locality",
                        "theories/" + prop_rel]
                self.checker_cmds.append("cd coq && coqc -Q theories LB theories/" + prop_rel)
                p2 = subprocess.run(cmd2, cwd=COQ, stdout=subprocess.PIPE, stderr=subprocess.STDOUT, text=True)
                out = p2.stdout
                if p2.returncode != 0:
                    built = False
                    self.proof_problems.append("coqc %s failed:\n%s" % (prop_rel, out[-3000:]))
        finally:
            fcntl.flock(lock, fcntl.LOCK_UN)
            lock.close()
        # audit
        bad = re.compile(r"\b(Admitted|admit|Axiom|Axioms|Parameter|Parameters|Conjecture|Hypothesis|Variable)\b|Unset\s+Guard|bypass_check|Admit\s+Obligations|-type-in-type")
        nqed = 0
        for f in files:
            try:
                src = open(os.path.join(THEORIES, f)).read()
            except OSError:
                continue
            src_nc = strip_comments(src)
            nqed += len(re.findall(r"\bQed\.", src_nc)) + len(re.findall(r"\bDefined\.", src_nc))
            depth = 0
            for ln in src_nc.splitlines():
                if re.match(r"\s*Section\b", ln):
                    depth += 1
                m = bad.search(ln)
                if m:
                    w = m.group(0)
                    if w in ("Variable", "Hypothesis") and depth > 0:
                        pass  # section-local: generalised at End, not an axiom
                    else:
                        self.proof_problems.append("audit: '%s' in %s: %s" % (w, f, ln.strip()))
                if re.match(r"\s*End\b", ln) and depth > 0:
                    depth -= 1
        self.obligations += nqed
        # Print Assumptions
        thms = re.findall(r"^\s*Theorem\s+([A-Za-z0-9_']+)", open(os.path.join(THEORIES, prop_rel)).read(), re.M)
        closed = out.count("Closed under the global context")
        axioms = re.findall(r"^Axioms:\n((?:.+\n)+)", out, re.M)
        self.assumptions = ["%d property theorems, %d 'Closed under the global context'" % (len(thms), closed)]
        if built:
            if axioms or closed != len(thms):
                self.proof_problems.append("Print Assumptions: %d theorems, %d closed; axioms: %s" % (len(thms), closed, axioms))
        if built and not [x for x in self.proof_problems]:
            self.discharged += nqed
        self.coverage["property_theorems"] = thms
        self.coverage["cone_files"] = files
        # thorough tier: the independent checker over the compiled cone, and the axioms it finds
        if built and self.tier == "thorough":
            mod = "LB." + prop_rel[:-2].replace("/", ".")
            cmd3 = ["timeout", "3000", "coqchk", "-silent", "-o", "-Q", "theories", "LB", mod]
            self.checker_cmds.append("cd coq && coqchk -silent -o -Q theories LB " + mod)
            p3 = subprocess.run(cmd3, cwd=COQ, stdout=subprocess.PIPE, stderr=subprocess.STDOUT, text=True)
            ax = re.search(r"\* Axioms:\s*(.*?)\n\s*\* Constants", p3.stdout, re.S)
            axioms_found = ax.group(1).strip() if ax else "?"
            self.assumptions.append("coqchk %s: rc=%d, axioms: %s" % (mod, p3.returncode, axioms_found))
            if p3.returncode != 0 or axioms_found != "<none>":
                self.proof_problems.append("coqchk %s: rc=%d\n%s" % (mod, p3.returncode, p3.stdout[-1500:]))
        return built

    def coq_eval(self, name, text, timeout=1500):
        """Compile a generated case file; return coqc output (None on failure)."""
        path = os.path.join(self.work, name + ".v")
        with open(path, "w") as f:
            f.write(text)
        cmd = ["timeout", str(timeout), "coqc", "-Q", os.path.join(COQ, "theories"), "LB", "-w", "none", name + ".v"]
        p = subprocess.run(cmd, cwd=self.work, stdout=subprocess.PIPE, stderr=subprocess.STDOUT, text=True)
        if p.returncode != 0:
            self.tie_problems.append({"what": "case file %s did not evaluate" % name, "detail": p.stdout[-2000:]})
            return None
        return p.stdout

    def coq_eval_many(self, items, timeout=1500, jobs=8):
        """items: list of (name, text); evaluated in parallel. Returns list of outputs."""
        from concurrent.futures import ThreadPoolExecutor
        with ThreadPoolExecutor(max_workers=jobs) as ex:
            return list(ex.map(lambda it: self.coq_eval(it[0], it[1], timeout), items))

    # ------------------------------------------------------------------ Go side
    def go_driver(self, pkg_rel, files, run, env=None, tags=None, race=False, timeout=900, pkgname=None):
        """Run test function(s) `run` of harness files overlaid into /repo/<pkg_rel>.
        files: list of harness source paths (relative to /verif/harness). Returns list of JSON lines."""
        pkgname = pkgname or os.path.basename(pkg_rel)
        overlay = {}
        util = open(os.path.join(VERIF, "harness/common/util_test.go.tmpl")).read().replace("PKGNAME", pkgname)
        up = os.path.join(self.work, "util_%s_test.go" % pkgname)
        open(up, "w").write(util)
        overlay[os.path.join(REPO, pkg_rel, "zz_verif_util_test.go")] = up
        for i, f in enumerate(files):
            overlay[os.path.join(REPO, pkg_rel, "zz_verif_%d_%s" % (i, os.path.basename(f)))] = os.path.join(VERIF, "harness", f)
        ov = os.path.join(self.work, "overlay_%s.json" % pkgname)
        json.dump({"Replace": overlay}, open(ov, "w"))
        outp = os.path.join(self.work, "out_%s_%d.jsonl" % (pkgname, len(os.listdir(self.work))))
        e = go_env()
        e["VERIF_OUT"] = outp
        e["VERIF_SEED"] = str(self.seed)
        e["VERIF_TIER"] = self.tier
        e["VERIF_WORK"] = self.work
        if env:
            e.update({k: str(v) for k, v in env.items()})
        cmd = ["timeout", "-k", "10", str(timeout), "go", "test", "-overlay", ov, "-count=1", "-vet=off",
               "-run", run, "-timeout", "%ds" % (timeout - 5)]
        if tags:
            cmd += ["-tags", tags]
        if race:
            cmd += ["-race"]
        cmd += ["./" + pkg_rel + "/"]
        t = time.time()
        p = subprocess.run(cmd, cwd=REPO, env=e, stdout=subprocess.PIPE, stderr=subprocess.STDOUT, text=True)
        self.log("driver %s %s: rc=%d %.1fs" % (pkg_rel, run, p.returncode, time.time() - t))
        # A panic of the server under test that is no part of any property here (it kills the whole driver process):
        # Server.Stop() racing with a leadership notification makes the single-node server try a leadership transfer
        # ("cannot find peer") and panic.  The run is repeated once, with the same seed, and the restart is recorded.
        for sig in INFRA_PANICS:
            if p.returncode != 0 and sig in p.stdout:
                self.infra_restarts.append({"driver": run, "panic": sig})
                if os.path.exists(outp):
                    os.remove(outp)
                t = time.time()
                p = subprocess.run(cmd, cwd=REPO, env=e, stdout=subprocess.PIPE, stderr=subprocess.STDOUT, text=True)
                self.log("driver %s %s (repeated after %r): rc=%d %.1fs" % (pkg_rel, run, sig, p.returncode, time.time() - t))
                break
        lines = []
        if os.path.exists(outp):
            with open(outp) as f:
                for ln in f:
                    try:
                        lines.append(json.loads(ln))
                    except ValueError:
                        pass
        if p.returncode != 0:
            tail = p.stdout[-4000:]
            if "[build failed]" in p.stdout or "[setup failed]" in p.stdout:
                self.tie_problems.append({"what": "driver for %s does not build against /repo" % pkg_rel, "detail": tail})
            else:
                self.tie_problems.append({"what": "driver %s in %s failed (rc=%d)" % (run, pkg_rel, p.returncode), "detail": tail})
        return lines

    # ------------------------------------------------------------------ decision
    def add_violation(self, sig, what, replay_cases, extra=None):
        """A concrete failing input from the direct oracle."""
        for k in self.known.get("open", []):
            if k["property"] == self.pid and k["sig"] == sig:
                if sig not in [x["sig"] for x in self.known_seen]:
                    self.known_seen.append({"sig": sig, "what": k["what"]})
                return
        v = {"sig": sig, "what": what, "cases": replay_cases}
        if extra:
            v.update(extra)
        self.violations.append(v)

    def finish(self, coverage, samples, rule, evaluations, distinct_nontrivial, traces=0, extra_assume=None):
        wall = time.time() - self.t0
        rc = 0
        rdir = os.path.join(VERIF, "replays", self.pid)
        for k in self.known_seen:
            print("KNOWN-FINDING: property=%s %s" % (self.pid, k["what"]), flush=True)
        nviol = 0
        if self.violations:
            os.makedirs(rdir, exist_ok=True)
            # report distinct signatures, smallest replay first
            seen = set()
            for v in self.violations:
                if v["sig"] in seen:
                    continue
                seen.add(v["sig"])
                nviol += 1
                path = os.path.join(rdir, "viol_%s_%d_%d.json" % (self.tier, self.seed, nviol))
                json.dump({"property": self.pid, "kind": "failing-input", "seed": self.seed, "tier": self.tier,
                           "what": v["what"], "sig": v["sig"], "cases": v["cases"],
                           "detail": {k: v[k] for k in v if k not in ("what", "sig", "cases")}}, open(path, "w"), indent=1)
                print("VIOLATION property=%s replay=%s" % (self.pid, path), flush=True)
                if nviol >= 5:
                    break
            rc = 1
        elif self.proof_problems or self.tie_problems:
            os.makedirs(rdir, exist_ok=True)
            path = os.path.join(rdir, "broken_%s_%d.json" % (self.tier, self.seed))
            json.dump({"property": self.pid, "kind": "no-failing-input-found", "seed": self.seed, "tier": self.tier,
                       "proof_obligations_broken": self.proof_problems,
                       "correspondence_broken": self.tie_problems,
                       "note": "the direct oracle found no failing input among the cases of this run (including the mismatching ones)"},
                      open(path, "w"), indent=1)
            nviol = 1
            print("VIOLATION property=%s replay=%s no-failing-input-found" % (self.pid, path), flush=True)
            rc = 1
        cov = dict(self.coverage)
        cov.update(coverage)
        cov.update({
            "obligations": self.obligations,
            "discharged": self.discharged,
            "checker_cmd": " ; ".join(self.checker_cmds) or "none",
            "trusted_base": self.trusted,
            "print_assumptions": self.assumptions,
            "evaluations": evaluations,
            "distinct_nontrivial": distinct_nontrivial,
            "rule": rule,
            "samples": samples,
            "traces_validated_against_impl": traces,
            "known_findings_seen": [k["sig"] for k in self.known_seen],
            "driver_runs_repeated_after_server_panic": self.infra_restarts,
            "proof_problems": self.proof_problems[:5],
            "tie_problems": [t["what"] for t in self.tie_problems][:5],
        })
        ev = {"property_id": self.pid, "tier": self.tier, "seed": self.seed, "level": self.level,
              "coverage": cov, "assumptions": self.assume + (extra_assume or []),
              "wall_s": round(wall, 1), "violations": nviol}
        os.makedirs(os.path.join(VERIF, "evidence"), exist_ok=True)
        json.dump(ev, open(os.path.join(VERIF, "evidence", self.pid + ".json"), "w"), indent=1)
        self.log("%s %s: obligations=%d discharged=%d evaluations=%d nontrivial=%d violations=%d known=%d wall=%.1fs" % (
            self.pid, self.tier, self.obligations, self.discharged, evaluations, distinct_nontrivial, nviol,
            len(self.known_seen), wall))
        self.cleanup()
        return rc


def strip_comments(src):
    out, depth, i = [], 0, 0
    while i < len(src):
        if src.startswith("(*", i):
            depth += 1
            i += 2
        elif src.startswith("*)", i) and depth > 0:
            depth -= 1
            i += 2
        else:
            if depth == 0:
                out.append(src[i])
            elif src[i] == "\n":
                out.append("\n")
            i += 1
    return "".join(out)


INFRA_PANICS = ["panic: error on metadata leadership step down: cannot find peer"]


def load_known():
    p = os.path.join(VERIF, "known_findings.json")
    try:
        return json.load(open(p))
    except OSError:
        return {"open": [], "fixed": []}


# ---------------------------------------------------------------------- Coq term printers
def coq_bytes(hexstr):
    b = bytes.fromhex(hexstr)
    return "[" + ";".join(str(x) for x in b) + "]%N"


def coq_list(items):
    return "[" + ";\n ".join(items) + "]"


def coq_bool(b):
    return "true" if b else "false"


def coq_Z(n):
    return "(%d)%%Z" % n


def coq_N(n):
    return "%d%%N" % n


def coq_option(x, f):
    return "None" if x is None else "(Some %s)" % f(x)


def parse_nat_lists(out, name):
    """Parse `name = ([..], [..]) : ...` printed by Coq into a list of lists of ints."""
    m = re.search(r"%s\s*=\s*(.*?)\n\s*:" % re.escape(name), out, re.S)
    if not m:
        return None
    body = m.group(1)
    return [[int(x) for x in re.findall(r"\d+", grp)] for grp in re.findall(r"\[([^\]]*)\]", body)]


def parse_pairs(out, name="M"):
    """Parse `M = [(a, b); ...] : list (nat * nat)` (with or without %nat annotations). None if absent."""
    m = re.search(r"%s\s*=\s*(.*?)\n\s*:" % re.escape(name), out, re.S)
    if not m:
        return None
    return [(int(a), int(b)) for a, b in re.findall(r"\(\s*(\d+)(?:%nat)?\s*,\s*(\d+)(?:%nat)?\s*\)", m.group(1))]
