#!/usr/bin/env python3
"""drv.py <pkg_rel> <run-regex> <out.jsonl> <harness files...> [KEY=VAL ...]: run a driver by hand (debugging)."""
import json, os, subprocess, sys
pkg, run, outp = sys.argv[1], sys.argv[2], sys.argv[3]
files = [a for a in sys.argv[4:] if '=' not in a]
envs = dict(a.split('=', 1) for a in sys.argv[4:] if '=' in a)
work = '/verif/work/dbg'
os.makedirs(work, exist_ok=True)
name = os.path.basename(pkg)
util = open('/verif/harness/common/util_test.go.tmpl').read().replace('PKGNAME', name)
open(work + '/util_%s_test.go' % name, 'w').write(util)
ov = {'/repo/%s/zz_verif_util_test.go' % pkg: work + '/util_%s_test.go' % name}
for i, f in enumerate(files):
    ov['/repo/%s/zz_verif_%d_%s' % (pkg, i, os.path.basename(f))] = '/verif/harness/' + f
json.dump({'Replace': ov}, open(work + '/ov.json', 'w'))
if os.path.exists(outp):
    os.remove(outp)
e = dict(os.environ, GOFLAGS='-mod=mod', GOPROXY='off', VERIF_OUT=outp, VERIF_WORK=work, **envs)
e.pop('GOTOOLCHAIN', None); e.pop('GOSUMDB', None)
p = subprocess.run(['go', 'test', '-overlay', work + '/ov.json', '-count=1', '-vet=off', '-run', run, './%s/' % pkg], cwd='/repo', env=e)
sys.exit(p.returncode)
