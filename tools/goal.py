#!/usr/bin/env python3
"""goal.py <file.v> <line> : show the proof state just before <line> (1-based)."""
import sys, subprocess, os
f, ln = sys.argv[1], int(sys.argv[2])
src = open(f).read().split("\n")
tmp = "/tmp/goal_%d.v" % os.getpid()
open(tmp, "w").write("\n".join(src[:ln-1]) + "\nShow.\nAbort All.\n")
p = subprocess.run(["coqc", "-Q", "/verif/coq/theories", "LB", tmp], stdout=subprocess.PIPE, stderr=subprocess.STDOUT, text=True)
print(p.stdout[-6000:])
for ext in (".v", ".vo", ".glob", ".vok", ".vos"):
    try: os.remove(tmp[:-2] + ext)
    except OSError: pass
