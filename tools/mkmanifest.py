#!/usr/bin/env python3
"""Regenerates MANIFEST.json from the table below (claimed checks) and properties.jsonl."""
import json, os
V = os.path.dirname(os.path.dirname(os.path.abspath(__file__)))
TECH = "machine-checked proof in Coq over an executable Gallina model + checked correspondence (Go drivers compiled into the real packages, observations compared with the model by vm_compute)"
CHECKS = {
 "C01": ("Theorems for every history, segment limit and reader start: every reachable log is well formed; Append returns exactly the next consecutive offsets and the log end advances by the batch size; each operation refines the abstract log (append adds at the end, truncate keeps exactly the records below the offset, reopen/HW change nothing); an uncommitted reader from any offset returns exactly the retained records >= start in order; content at an offset is immutable except for truncation. Tie: ~240 generated histories per run (appends with nil/empty/large fields, message-set appends, truncations, reopen, HW) on a real commitLog, every observation (offsets, log ends, all reads) compared with the model inside Coq, plus a direct oracle (abstract list of records).",
         "file system / mmap not modelled (segment = list of records); timestamps > 0, non-empty batches, MaxSegmentAge = 0, int32 index narrowing guarded; message codec round trip (key/value/headers bytes) is checked by the direct oracle on every read, its Coq theorem is not part of this cone yet", "DESIGN.md 5/C01"),
 "C07": ("Theorems for every sequence of leader reports, ISR shrink/expand requests, timer expiries and controller leadership losses of the failover model: requests naming a stale leader or epoch are refused and change nothing; partition and leader epochs only increase, a leader change strictly increases the leader epoch (one leader per leader epoch) and any ISR/leader change strictly increases the partition epoch; a new leader is always an in-sync replica other than the reported leader, chosen only when more than (|ISR|-1)/2 in-sync followers that reported the current (leader, epoch) are on record, and the record is emptied by the election; leader in ISR subset of replicas is invariant under requests of the internal form. The pinned code is refuted (a single report by a non-replica re-elects). Tie: ~120 generated histories per run against a real single-node controller with a phantom-replica stream; return codes and leader/epochs/ISR compared with the model after every call; the run reports which model variant the tree matches; direct oracle for quorum, candidate, epochs, membership.",
         "hashicorp/raft assumed (entries applied once, in index order); the expiry timer and the load-based choice among candidates are taken from the observation; ShrinkISR naming a non-replica makes the FSM apply fail, which panics the server by design -- excluded from generation and noted in DESIGN.md", "DESIGN.md 5/C07"),
 "C09": ("Theorems for every segment list, limit triple and cut-off: the cleaner returns a suffix of the segment list that always contains the newest segment; afterwards the message, byte and age limits hold unless only the newest segment remains (age: given non-decreasing last-write times); the newest removed segment always violates a configured limit together with the survivors (nothing is removed needlessly); the surviving content is a contiguous suffix and the cleaned log is well formed, so C01's reader theorem applies to it. Tie: ~250 histories per run with ~1300 Clean() calls on a real commitLog under all limit combinations (age cut-off pinned via computeTTL), layout before/after and all reads compared with the model inside Coq, plus a direct oracle for suffix / limits / minimality.",
         "time-based roll and the cleaner goroutine's own ticker are not modelled (Clean() is called directly); concurrent roll during a clean is the rebase path of C08", "DESIGN.md 5/C09"),
 "C12": ("Theorems for every sequence of joins (of non-members), leaves/expiries and stream deletions, any number of members/streams and any partition counts: every partition of every stream with a subscribed member has exactly one owner and the owner subscribes to the stream; nobody holds a partition of a stream it does not subscribe to or that does not exist; a single-stream rebalance leaves counts within one of each other; stale group epochs are refused. The model is a function of the op sequence. Tie: ~500 generated sequences per run on two directly constructed consumerGroup values, the full assignment table/members/epoch after every op compared with the model inside Coq, and the two instances with each other (Go map iteration is randomised) plus a direct exactly-one-owner oracle.",
         "getStreamPartitions is a fixed function during a history (partition counts never change for an existing stream); the asynchronous, epoch-guarded delivery of StreamDeleted and the member order used when a snapshot is restored are exercised by the C06 check, not here", "DESIGN.md 5/C12"),
 "C13": ("Theorems over every interleaving of group subscribes (any epochs, same or different consumer ids), subscription closes and loop returns of the slot LTS: at most one subscription is active; an older group epoch is refused and changes nothing; an equal or newer one replaces and cancels the holder; the pinned code (slot removed by consumer id) is refuted by a 4-event trace. Tie: ~150 generated traces per run (plus the refutation trace) replayed on a real partition of an in-process single-node server; slot holder/epoch and the number of active subscriptions compared with the model after every event; direct oracle #active <= 1.",
         "LTS at mutex granularity: one transition per Subscribe call / close / loop return; Go scheduling inside these is not modelled (partial). A loop return is produced by cancelling the subscription's context and receiving its final status, as the gRPC handler does", "DESIGN.md 5/C13"),
 "C14": ("Theorems over all byte strings: bounds-checked checkEnvelope and UnmarshalReplicationResponse never panic, encode/decode round trip (with and without CRC), accepted input is exactly the envelope it encodes, CRC mismatch is rejected, publish path is envelope-or-verbatim. Tie: checkEnvelope, every protocol.Unmarshal* and natsToProtoMessage run on ~7000 generated byte strings per run (incl. all 256 header-length bytes), outcome class and payload compared with the model inside Coq.",
         "protobuf decoding is an uninterpreted function; CRC model validated by samples; model hand-written, tie is differential", "DESIGN.md 5/C14"),
 "C16": ("Theorem: with concurrency control a single-message append is stored iff its expected offset is -1 or exactly the next offset, then at exactly that offset; otherwise it fails and content and log end are unchanged (so of any set of racers with one expected offset at most one can succeed, since the log end only grows). Tie: ~250 generated sequences of conditional appends on a real commitLog compared step by step with the model.",
         "log-level (commitlog.Append with ConcurrencyControl); the server's batching to size 1 and nack path are exercised by the server-level drivers of C04 when present", "DESIGN.md 5/C16"),
}
def main():
    props = [json.loads(l) for l in open(os.path.join(V, "properties.jsonl"))]
    hooks = []
    hp = os.path.join(V, "MANIFEST.hooks")
    for ln in open(hp):
        if ln.startswith("commit "):
            hooks.append(ln.split()[1])
    m = {"version": 1, "setup_cmd": "bin/setup",
         "hooks": {"guard": "verif", "enable": "go test -tags verif (only the C05 crash points need it; every other driver is an overlay test file and needs no source change)",
                   "baseline_off_cmd": "cd /repo && GOFLAGS=-mod=mod GOPROXY=off go test -vet=off -count=1 -timeout 25m ./...",
                   "source_commits": hooks, "add_only": True},
         "engines": [{"name": "rocq-model+correspondence", "path": "coq/ lib/ harness/ bin/check", "serves_properties": sorted(CHECKS),
                      "kind_free_text": "Coq 8.16.1 development (theorems over executable Gallina models) + Go overlay drivers whose observations are compared with the models by vm_compute"}],
         "checks": [], "notes": "see DESIGN.md; known_findings.json lists open and fixed findings", "not_applicable": []}
    for p in props:
        pid = p["id"]
        if pid in CHECKS:
            text, note, ref = CHECKS[pid]
            m["checks"].append({"property_id": pid, "quick_cmd": "bin/check %s --tier quick" % pid,
                                "thorough_cmd": "bin/check %s --tier thorough" % pid,
                                "evidence_file": "evidence/%s.json" % pid,
                                "replay_cmd_template": "bin/check %s --replay {path}" % pid,
                                "engine": "rocq-model+correspondence",
                                "level_claimed": {"category": "proof", "text": text, "design_ref": ref},
                                "level_note": note, "technique": TECH})
        else:
            m["not_applicable"].append({"property_id": pid, "reason": "not claimed yet: model and driver under construction in this session; nothing is asserted about it until its check is committed"})
    json.dump(m, open(os.path.join(V, "MANIFEST.json"), "w"), indent=1)
main()
