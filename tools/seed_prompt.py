#!/usr/bin/env python3
"""seed_prompt.py <PID> <worktree> <n>: print the prompt for a seeded-defect agent (property text only)."""
import json, sys
pid, wt, n = sys.argv[1], sys.argv[2], sys.argv[3]
for l in open('/verif/properties.jsonl'):
    p = json.loads(l)
    if p['id'] == pid:
        break
t = open('/verif/tools/seed_prompt.txt').read()
print(t.format(wt=wt, pid=pid, title=p['title'], statement=p['statement'], quant=p['quantifier']['text'],
               files=", ".join(p['anchors']['files']),
               mech="; ".join("%s (%s)" % (m['name'], m['where']) for m in p['anchors']['mechanism']), n=n))
