#!/bin/bash
# seed_run.sh <PID> <patch.diff> [tier]: apply the patch to /repo, run the check, undo it straight afterwards.
PID=$1; PATCH=$2; TIER=${3:-quick}
cd /verif
if ! git -C /repo apply "$PATCH"; then echo "PATCH DOES NOT APPLY"; exit 2; fi
bin/check $PID --tier $TIER > /tmp/seed_run_out.txt 2>&1; rc=$?
git -C /repo checkout -- . 
grep -E "VIOLATION|KNOWN|quick:|thorough:" /tmp/seed_run_out.txt | head -5
echo "rc=$rc"
