#!/usr/bin/env python3
"""seed_store.py <src_seed_dir> <verdict> [note]: copy a confirmed seeded change into /verif/seeded/<name>/
with my own confirmation (JSON line printed by tools/seed_verify.sh, read from stdin or --confirm file) and the check verdict."""
import json, os, shutil, sys
src, verdict = sys.argv[1].rstrip('/'), sys.argv[2]
note = sys.argv[3] if len(sys.argv) > 3 else None
name = os.path.basename(src)
dst = '/verif/seeded/' + name
os.makedirs(dst, exist_ok=True)
for f in ('patch.diff', 'zz_seed_demo_test.go', 'demo_pkg.txt'):
    shutil.copy(os.path.join(src, f), os.path.join(dst, f))
meta = json.load(open(os.path.join(src, 'meta.json')))
conf = sys.stdin.read().strip()
meta['author'] = 'independent sub-agent given only the property text and a scratch worktree'
meta['confirmed_by_me'] = json.loads(conf) if conf else None
meta['confirmed_how'] = 'tools/seed_verify.sh: scratch worktree of /repo HEAD, git apply, go build ./..., go test of the touched packages (inside unshare -n), demo test with and without the patch'
meta['check_verdict'] = verdict
if note:
    meta['check_note'] = note
json.dump(meta, open(os.path.join(dst, 'meta.json'), 'w'), indent=1)
print('stored', dst)
