#!/bin/bash
# seed_try.sh <PID> <patch.diff> [tier]: run a check against a scratch worktree of /repo with the patch applied
# (never touches /repo).  The worktree /tmp/wtseed is created on demand and left clean.
PID=$1; PATCH=$2; TIER=${3:-quick}
WT=/tmp/wtseed
[ -d $WT ] || git -C /repo worktree add -q --detach $WT HEAD
git -C $WT checkout -q -- . ; git -C $WT clean -fdq
if ! git -C $WT apply "$PATCH"; then echo "PATCH DOES NOT APPLY"; exit 2; fi
cd /verif
VERIF_REPO=$WT bin/check $PID --tier $TIER > /tmp/seed_try_out.txt 2>&1; rc=$?
git -C $WT checkout -q -- . ; git -C $WT clean -fdq
# the generated models (coq/theories/Generated) were regenerated from the scratch tree: put back what /repo says
bin/gen telemetry >/dev/null 2>&1; bin/gen handlers >/dev/null 2>&1
grep -E "VIOLATION|KNOWN|quick:|thorough:" /tmp/seed_try_out.txt | cut -c1-220 | head -5
echo "rc=$rc"
