#!/bin/bash
# seed_verify.sh <seed_dir> : confirm a seeded change in a scratch worktree of /repo:
#   applies, builds, existing tests of the touched packages pass, demo fails with it and passes without it.
# Prints a JSON line; removes the worktree afterwards.
set -u
D="$1"; NAME=$(basename "$D")
WT=/tmp/seedchk_$NAME
export GOFLAGS=-mod=mod GOPROXY=off
unset GOTOOLCHAIN GOSUMDB
git -C /repo worktree remove --force "$WT" >/dev/null 2>&1
git -C /repo worktree add -q --detach "$WT" HEAD || { echo "{\"seed\":\"$NAME\",\"error\":\"worktree\"}"; exit 1; }
cd "$WT"
PKG=$(cat "$D/demo_pkg.txt" | tr -d ' \n')
run_ns() { unshare -n sh -c "ip link set lo up; $1"; }
applies=no; builds=no; suite=unknown; demo_with=unknown; demo_without=unknown
if git apply "$D/patch.diff" 2>/dev/null; then applies=yes; fi
if [ $applies = yes ] && go build ./... >/dev/null 2>&1; then builds=yes; fi
if [ $builds = yes ]; then
  PKGS=$(git diff --name-only | xargs -n1 dirname | sort -u | sed 's#^#./#' | tr '\n' ' ')
  if run_ns "go test -count=1 -vet=off -timeout 25m $PKGS" > "$WT/suite.log" 2>&1; then suite=pass; else
    # tolerate the two known-flaky tests
    if grep -E "^--- FAIL" "$WT/suite.log" | grep -vE "TestPartitionLeaderFailover|TestTimeoutFuture_ErrorSuccess" | grep -q .; then suite=fail; else suite=pass-flaky; fi
  fi
  cp "$D/zz_seed_demo_test.go" "$WT/$PKG/zz_seed_demo_test.go"
  TAGS=""; if head -3 "$D/zz_seed_demo_test.go" | grep -q "go:build verif"; then TAGS="-tags verif"; fi
  if run_ns "go test $TAGS -count=1 -vet=off -timeout 10m -run 'TestSeed|Seed' ./$PKG/" > "$WT/demo_with.log" 2>&1; then demo_with=pass; else demo_with=fail; fi
  git checkout -q -- . 
  if run_ns "go test $TAGS -count=1 -vet=off -timeout 10m -run 'TestSeed|Seed' ./$PKG/" > "$WT/demo_without.log" 2>&1; then demo_without=pass; else demo_without=fail; fi
fi
echo "{\"seed\":\"$NAME\",\"applies\":\"$applies\",\"builds\":\"$builds\",\"existing_tests\":\"$suite\",\"demo_with_patch\":\"$demo_with\",\"demo_without_patch\":\"$demo_without\"}"
cp "$WT"/suite.log /tmp/seedchk_${NAME}_suite.log 2>/dev/null
tail -5 "$WT/demo_with.log" > /tmp/seedchk_${NAME}_demo_with.log 2>/dev/null
cd /; git -C /repo worktree remove --force "$WT" >/dev/null 2>&1
