// Translator for C15: turns every client-API handler of server/api.go into a small control-flow
// term over authorisation checks and effects (Coq type hstep of Api/Authz.v).
//
//   Check deny      x := a.ensureAuthorizationPermission(...) ; if x != nil { deny }
//   CheckNoBranch   the same call whose result is not followed by `if x != nil {...}`
//   Effect name     a call that changes state or delivers data (classification table below);
//                   calls on the receivers a/p/out/session that the table does not know are
//                   emitted as Effect "unknown:<callee>" -- new code is an effect until classified
//   Branch a b      if / switch / select (both sides may continue)
//   Loop fv b       for / range; fv = true for `for { }` (left only by return or break)
//   RetOk / RetErr  return with a nil / non-nil error expression
//   Continue, Break
//
// Calls to publishLoop (PublishAsync) are inlined. Syntax only (go/ast).
package main

import (
	"fmt"
	"go/ast"
	"go/parser"
	"go/printer"
	"go/token"
	"os"
	"path/filepath"
	"regexp"
	"sort"
	"strings"
)

var fset = token.NewFileSet()

func src(n ast.Node) string {
	var sb strings.Builder
	printer.Fprint(&sb, fset, n)
	return sb.String()
}

var effectTable = []struct {
	re   *regexp.Regexp
	name string
}{
	{regexp.MustCompile(`^(a|p)\.metadata\.CreateStream$`), "create-stream"},
	{regexp.MustCompile(`^(a|p)\.metadata\.DeleteStream$`), "delete-stream"},
	{regexp.MustCompile(`^(a|p)\.metadata\.PauseStream$`), "pause-stream"},
	{regexp.MustCompile(`^(a|p)\.metadata\.ResumeStream$`), "resume-stream"},
	{regexp.MustCompile(`^(a|p)\.metadata\.SetStreamReadonly$`), "set-readonly"},
	{regexp.MustCompile(`^(a|p)\.metadata\.JoinConsumerGroup$`), "join-group"},
	{regexp.MustCompile(`^(a|p)\.metadata\.LeaveConsumerGroup$`), "leave-group"},
	{regexp.MustCompile(`^(a|p)\.metadata\.ReportGroupCoordinator$`), "report-coordinator"},
	{regexp.MustCompile(`^(a|p)\.metadata\.GetConsumerGroupAssignments$`), "group-heartbeat"},
	{regexp.MustCompile(`^(a|p)\.cursors\.SetCursor$`), "set-cursor"},
	{regexp.MustCompile(`^(a|p)\.resumeStream$`), "resume-stream"},
	{regexp.MustCompile(`^(a|p)\.publish$`), "publish"},
	{regexp.MustCompile(`^(a|p)\.publishSync$`), "publish"},
	{regexp.MustCompile(`^(a|p)\.ncPublishes\.Publish$`), "publish"},
	{regexp.MustCompile(`^(a|p)\.nc\.Publish$`), "publish"},
	{regexp.MustCompile(`^(a|p)\.SubscribeInternal$`), "subscribe"},
	{regexp.MustCompile(`^(a|p)\.subscribe$`), "subscribe"},
	{regexp.MustCompile(`^out\.Send$`), "deliver"},
}

var harmless = regexp.MustCompile(`^((a|p)\.logger\.\w+|(a|p)\.getPublishSubject|(a|p)\.ensurePublishPreconditions|` +
	`(a|p)\.ensureCreateStreamPrecondition|(a|p)\.getAckInbox|(a|p)\.metadata\.Get(Stream|Partition|Streams)|` +
	`(a|p)\.cursors\.GetCursor|(a|p)\.metadata\.Fetch(Partition)?Metadata|out\.Context\(\)\.\w+|(a|p)\.createMetadataResponse|(a|p)\.createPartitionMetadataResponse|` +
	`out\.Context|p\.stream\.(Context|Recv|Send)|p\.sendPublishAsyncError|p\.waitForInflight|` +
	`(a|p)\.newPublishAsyncSession|session\.(dispatchAcks|close)|p\.mu\.(Lock|Unlock)|(a|p)\.config\.\w+(\.\w+)*)$`)

type ctx struct {
	funcs map[string]*ast.FuncDecl
	inEOF int // > 0 while translating the branch taken when the client's stream has ended (io.EOF)
}

func (c *ctx) classify(call *ast.CallExpr) (kind, name string) {
	callee := src(call.Fun)
	if strings.HasSuffix(callee, ".ensureAuthorizationPermission") {
		return "check", ""
	}
	if strings.HasSuffix(callee, ".publishLoop") {
		return "inline", "publishLoop"
	}
	for _, e := range effectTable {
		if e.re.MatchString(callee) {
			return "effect", e.name
		}
	}
	if harmless.MatchString(callee) {
		return "harmless", ""
	}
	root := strings.Split(callee, ".")[0]
	if root == "a" || root == "p" || root == "out" || root == "session" {
		return "effect", "unknown:" + callee
	}
	return "harmless", ""
}

// callsIn returns the calls inside n in source order, without descending into nested blocks / func literals.
func callsIn(n ast.Node) []*ast.CallExpr {
	var out []*ast.CallExpr
	if n == nil {
		return out
	}
	ast.Inspect(n, func(x ast.Node) bool {
		switch y := x.(type) {
		case *ast.BlockStmt, *ast.FuncLit:
			_ = y
			return false
		case *ast.CallExpr:
			// arguments first (evaluation order), then the call itself
			for _, a := range y.Args {
				out = append(out, callsIn(a)...)
			}
			out = append(out, callsIn(y.Fun)...)
			out = append(out, y)
			return false
		}
		return true
	})
	return out
}

func (c *ctx) effectsOf(n ast.Node) []string {
	var out []string
	for _, call := range callsIn(n) {
		kind, name := c.classify(call)
		switch kind {
		case "effect":
			out = append(out, fmt.Sprintf("Effect %q", name))
		case "check":
			out = append(out, "CheckNoBranch")
		case "inline":
			if f := c.funcs[name]; f != nil {
				out = append(out, c.block(f.Body.List)...)
			} else {
				out = append(out, fmt.Sprintf("Effect %q", "unknown:"+name))
			}
		}
	}
	return out
}

func lst(xs []string) string { return "[" + strings.Join(xs, "; ") + "]" }

func isNilErr(e ast.Expr) bool {
	id, ok := e.(*ast.Ident)
	return ok && id.Name == "nil"
}

func (c *ctx) block(stmts []ast.Stmt) []string {
	var out []string
	for i := 0; i < len(stmts); i++ {
		st := stmts[i]
		// authorisation pattern: x := recv.ensureAuthorizationPermission(...) ; if x != nil { ... }
		if as, ok := st.(*ast.AssignStmt); ok && len(as.Rhs) == 1 {
			if call, ok := as.Rhs[0].(*ast.CallExpr); ok {
				if kind, _ := c.classify(call); kind == "check" {
					v := src(as.Lhs[0])
					if i+1 < len(stmts) {
						if is, ok := stmts[i+1].(*ast.IfStmt); ok && is.Init == nil &&
							strings.ReplaceAll(src(is.Cond), " ", "") == v+"!=nil" && is.Else == nil {
							out = append(out, "Check "+lst(c.block(is.Body.List)))
							i++
							continue
						}
					}
					out = append(out, "CheckNoBranch")
					continue
				}
			}
		}
		switch s := st.(type) {
		case *ast.IfStmt:
			if s.Init != nil {
				// if x := recv.ensureAuthorizationPermission(...); x != nil { deny }
				if as, ok := s.Init.(*ast.AssignStmt); ok && len(as.Rhs) == 1 {
					if call, ok := as.Rhs[0].(*ast.CallExpr); ok {
						if kind, _ := c.classify(call); kind == "check" &&
							strings.ReplaceAll(src(s.Cond), " ", "") == src(as.Lhs[0])+"!=nil" && s.Else == nil {
							out = append(out, "Check "+lst(c.block(s.Body.List)))
							continue
						}
					}
				}
				out = append(out, c.effectsOf(s.Init)...)
			}
			out = append(out, c.effectsOf(s.Cond)...)
			var els []string
			switch e := s.Else.(type) {
			case *ast.BlockStmt:
				els = c.block(e.List)
			case *ast.IfStmt:
				els = c.block([]ast.Stmt{e})
			}
			eof := strings.Contains(src(s.Cond), "io.EOF")
			if eof {
				c.inEOF++
			}
			thenB := c.block(s.Body.List)
			if eof {
				c.inEOF--
			}
			out = append(out, fmt.Sprintf("Branch %s %s", lst(thenB), lst(els)))
		case *ast.ForStmt:
			if s.Init != nil {
				out = append(out, c.effectsOf(s.Init)...)
			}
			body := c.effectsOf(s.Cond)
			body = append(body, c.block(s.Body.List)...)
			if s.Cond == nil {
				out = append(out, "Loop true "+lst(body)) // for { ... }: left only by return or break
			} else {
				out = append(out, "Loop false "+lst(body))
			}
		case *ast.RangeStmt:
			out = append(out, c.effectsOf(s.X)...)
			out = append(out, "Loop false "+lst(c.block(s.Body.List)))
		case *ast.ReturnStmt:
			for _, r := range s.Results {
				out = append(out, c.effectsOf(r)...)
			}
			if c.inEOF > 0 {
				// the client closed its request stream: the call ends without having accepted anything
				out = append(out, "RetErr")
			} else if len(s.Results) > 0 && isNilErr(s.Results[len(s.Results)-1]) {
				out = append(out, "RetOk")
			} else if len(s.Results) == 0 {
				out = append(out, "RetOk")
			} else {
				out = append(out, "RetErr")
			}
		case *ast.BranchStmt:
			switch s.Tok {
			case token.CONTINUE:
				out = append(out, "Continue")
			case token.BREAK:
				out = append(out, "Break")
			}
		case *ast.BlockStmt:
			out = append(out, c.block(s.List)...)
		case *ast.SwitchStmt, *ast.TypeSwitchStmt, *ast.SelectStmt:
			var clauses [][]string
			var body *ast.BlockStmt
			switch y := s.(type) {
			case *ast.SwitchStmt:
				out = append(out, c.effectsOf(y.Init)...)
				out = append(out, c.effectsOf(y.Tag)...)
				body = y.Body
			case *ast.TypeSwitchStmt:
				body = y.Body
			case *ast.SelectStmt:
				body = y.Body
			}
			for _, cl := range body.List {
				switch z := cl.(type) {
				case *ast.CaseClause:
					var pre []string
					for _, e := range z.List {
						pre = append(pre, c.effectsOf(e)...)
					}
					clauses = append(clauses, append(pre, c.block(z.Body)...))
				case *ast.CommClause:
					var pre []string
					if z.Comm != nil {
						pre = c.effectsOf(z.Comm)
					}
					clauses = append(clauses, append(pre, c.block(z.Body)...))
				}
			}
			// n-ary choice as nested binary branches
			term := "[]"
			for j := len(clauses) - 1; j >= 0; j-- {
				term = fmt.Sprintf("[Branch %s %s]", lst(clauses[j]), term)
			}
			out = append(out, strings.TrimSuffix(strings.TrimPrefix(term, "["), "]"))
		case *ast.DeferStmt:
			// deferred calls run at return; only effects matter and none of the handlers defers one
			out = append(out, c.effectsOf(s.Call)...)
		case *ast.GoStmt:
			out = append(out, c.effectsOf(s.Call)...)
		default:
			out = append(out, c.effectsOf(st)...)
		}
	}
	return out
}

func main() {
	repo := os.Args[1]
	f, err := parser.ParseFile(fset, filepath.Join(repo, "server/api.go"), nil, 0)
	if err != nil {
		fmt.Fprintln(os.Stderr, err)
		os.Exit(2)
	}
	c := &ctx{funcs: map[string]*ast.FuncDecl{}}
	var handlers []*ast.FuncDecl
	for _, d := range f.Decls {
		fd, ok := d.(*ast.FuncDecl)
		if !ok || fd.Recv == nil || fd.Body == nil {
			continue
		}
		c.funcs[fd.Name.Name] = fd
		recv := src(fd.Recv.List[0].Type)
		if recv != "*apiServer" || !fd.Name.IsExported() || fd.Name.Name == "SubscribeInternal" {
			continue
		}
		// gRPC handler shapes: (ctx, req) (resp, error) | (req, stream) error | (stream) error
		res := fd.Type.Results
		if res == nil || len(res.List) == 0 || src(res.List[len(res.List)-1].Type) != "error" {
			continue
		}
		handlers = append(handlers, fd)
	}
	sort.Slice(handlers, func(i, j int) bool { return handlers[i].Name.Name < handlers[j].Name.Name })
	fmt.Println("(* GENERATED by translate/authz.go from /repo/server/api.go -- do not edit *)")
	fmt.Println("From Coq Require Import List String.")
	fmt.Println("From LB Require Import Api.Authz.")
	fmt.Println("Import ListNotations.")
	fmt.Println("Open Scope string_scope.")
	fmt.Println("Definition handlers : list (string * list hstep) := [")
	for i, h := range handlers {
		sep := ";"
		if i == len(handlers)-1 {
			sep = ""
		}
		fmt.Printf("  (%q, %s)%s\n", h.Name.Name, lst(c.block(h.Body.List)), sep)
	}
	fmt.Println("].")
}
