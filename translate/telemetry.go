// Translator for C19: reads the current sources of liftbridge and emits a Coq file describing
//   - the JSON key tree of telemetry.TelemetryPayload (struct tags, recursively)
//   - every selector expression / call target that collectPayload and sendTelemetry read
//   - how server.go gates the creation and the start of the collector, and whether
//     Collector.Start returns early when disabled
//   - the steps of NewConfig that decide Telemetry.Enabled (defaults, config file, environment)
//   - every non-test file of the repository that imports net/http
// It understands syntax only; what it cannot find it reports as missing (the check then fails).
package main

import (
	"fmt"
	"go/ast"
	"go/parser"
	"go/printer"
	"go/token"
	"os"
	"path/filepath"
	"reflect"
	"sort"
	"strings"
)

func expr(fset *token.FileSet, e ast.Node) string {
	var sb strings.Builder
	printer.Fprint(&sb, fset, e)
	return sb.String()
}

func coqStr(s string) string { return "\"" + strings.ReplaceAll(s, "\"", "\"\"") + "\"" }

func coqList(xs []string) string {
	var q []string
	for _, x := range xs {
		q = append(q, coqStr(x))
	}
	return "[" + strings.Join(q, "; ") + "]"
}

func main() {
	repo := os.Args[1]
	fset := token.NewFileSet()
	telFile, err := parser.ParseFile(fset, filepath.Join(repo, "server/telemetry/telemetry.go"), nil, 0)
	if err != nil {
		fmt.Fprintln(os.Stderr, err)
		os.Exit(2)
	}
	structs := map[string]*ast.StructType{}
	funcs := map[string]*ast.FuncDecl{}
	for _, d := range telFile.Decls {
		switch x := d.(type) {
		case *ast.GenDecl:
			for _, sp := range x.Specs {
				if ts, ok := sp.(*ast.TypeSpec); ok {
					if st, ok := ts.Type.(*ast.StructType); ok {
						structs[ts.Name.Name] = st
					}
				}
			}
		case *ast.FuncDecl:
			funcs[x.Name.Name] = x
		}
	}
	// JSON key tree
	var keys []string
	var walk func(name, prefix string)
	walk = func(name, prefix string) {
		st := structs[name]
		if st == nil {
			return
		}
		for _, f := range st.Fields.List {
			tag := ""
			if f.Tag != nil {
				tag = reflect.StructTag(strings.Trim(f.Tag.Value, "`")).Get("json")
			}
			key := strings.Split(tag, ",")[0]
			if key == "" {
				for _, n := range f.Names {
					key = n.Name
				}
			}
			if key == "-" {
				continue
			}
			keys = append(keys, prefix+key)
			t := f.Type
			if s, ok := t.(*ast.StarExpr); ok {
				t = s.X
			}
			if id, ok := t.(*ast.Ident); ok {
				walk(id.Name, prefix+key+".")
			}
		}
	}
	walk("TelemetryPayload", "")
	// sources read by collectPayload / sendTelemetry
	collect := func(fn string) []string {
		set := map[string]bool{}
		f := funcs[fn]
		if f == nil {
			return []string{"<missing " + fn + ">"}
		}
		ast.Inspect(f.Body, func(n ast.Node) bool {
			if se, ok := n.(*ast.SelectorExpr); ok {
				set[expr(fset, se)] = true
				return false
			}
			return true
		})
		var out []string
		for k := range set {
			out = append(out, k)
		}
		sort.Strings(out)
		return out
	}
	// Collector.Start: first statement returns when !c.config.Enabled
	startChecks := false
	if f := funcs["Start"]; f != nil && len(f.Body.List) > 0 {
		if is, ok := f.Body.List[0].(*ast.IfStmt); ok {
			if strings.ReplaceAll(expr(fset, is.Cond), " ", "") == "!c.config.Enabled" {
				for _, st := range is.Body.List {
					if _, ok := st.(*ast.ReturnStmt); ok {
						startChecks = true
					}
				}
			}
		}
	}
	// run(): sends happen only in run; Start launches run only after the check
	sendCallers := []string{}
	for name, f := range funcs {
		found := false
		ast.Inspect(f.Body, func(n ast.Node) bool {
			if ce, ok := n.(*ast.CallExpr); ok {
				if strings.HasSuffix(expr(fset, ce.Fun), "sendTelemetry") {
					found = true
				}
			}
			return true
		})
		if found {
			sendCallers = append(sendCallers, name)
		}
	}
	sort.Strings(sendCallers)
	runCallers := []string{}
	for name, f := range funcs {
		found := false
		ast.Inspect(f.Body, func(n ast.Node) bool {
			if ce, ok := n.(*ast.CallExpr); ok {
				if strings.HasSuffix(expr(fset, ce.Fun), "c.run") {
					found = true
				}
			}
			if gs, ok := n.(*ast.GoStmt); ok {
				if strings.HasSuffix(expr(fset, gs.Call.Fun), "c.run") {
					found = true
				}
			}
			return true
		})
		if found {
			runCallers = append(runCallers, name)
		}
	}
	sort.Strings(runCallers)

	// server.go gating
	srvFile, err := parser.ParseFile(fset, filepath.Join(repo, "server/server.go"), nil, 0)
	if err != nil {
		fmt.Fprintln(os.Stderr, err)
		os.Exit(2)
	}
	var newGuards, startGuards []string
	var stack []ast.Node
	ast.Inspect(srvFile, func(n ast.Node) bool {
		if n == nil {
			stack = stack[:len(stack)-1]
			return true
		}
		stack = append(stack, n)
		if ce, ok := n.(*ast.CallExpr); ok {
			fn := expr(fset, ce.Fun)
			if fn == "telemetry.New" || fn == "s.telemetry.Start" {
				conds := []string{}
				for _, a := range stack {
					if is, ok := a.(*ast.IfStmt); ok {
						// only count it when the call is in the body (not in the else branch)
						if is.Body.Pos() <= ce.Pos() && ce.End() <= is.Body.End() {
							conds = append(conds, strings.ReplaceAll(expr(fset, is.Cond), " ", ""))
						}
					}
				}
				g := strings.Join(conds, "&&")
				if fn == "telemetry.New" {
					newGuards = append(newGuards, g)
				} else {
					startGuards = append(startGuards, g)
				}
			}
		}
		return true
	})
	// where s.telemetry is assigned
	var telAssign []string
	ast.Inspect(srvFile, func(n ast.Node) bool {
		if as, ok := n.(*ast.AssignStmt); ok {
			for i, l := range as.Lhs {
				if expr(fset, l) == "s.telemetry" {
					r := as.Rhs[0]
					if i < len(as.Rhs) {
						r = as.Rhs[i]
					}
					telAssign = append(telAssign, expr(fset, r))
				}
			}
		}
		return true
	})

	// config.go: which statements write Telemetry.Enabled, in source order within NewConfig's call tree
	cfgFile, err := parser.ParseFile(fset, filepath.Join(repo, "server/config.go"), nil, 0)
	if err != nil {
		fmt.Fprintln(os.Stderr, err)
		os.Exit(2)
	}
	var cfgWrites []string
	cfgFuncs := map[string]*ast.FuncDecl{}
	for _, d := range cfgFile.Decls {
		if fd, ok := d.(*ast.FuncDecl); ok {
			cfgFuncs[fd.Name.Name] = fd
		}
	}
	envBeforeEarlyReturn, envAfterFile := false, false
	if nc := cfgFuncs["NewConfig"]; nc != nil {
		seenEarly := false
		for _, st := range nc.Body.List {
			s := expr(fset, st)
			if is, ok := st.(*ast.IfStmt); ok && strings.Contains(expr(fset, is.Cond), "configFile == \"\"") {
				seenEarly = true
			}
			if strings.Contains(s, "applyTelemetryEnv") || strings.Contains(s, "LIFTBRIDGE_TELEMETRY_ENABLED") {
				if !seenEarly {
					envBeforeEarlyReturn = true
				} else {
					envAfterFile = true
				}
			}
		}
	}
	for name, fd := range cfgFuncs {
		ast.Inspect(fd.Body, func(n ast.Node) bool {
			if as, ok := n.(*ast.AssignStmt); ok {
				for _, l := range as.Lhs {
					if strings.HasSuffix(expr(fset, l), "Telemetry.Enabled") {
						cfgWrites = append(cfgWrites, name+": "+expr(fset, as))
					}
				}
			}
			return true
		})
	}
	sort.Strings(cfgWrites)
	envVarMentioned := false
	if b, err := os.ReadFile(filepath.Join(repo, "server/config.go")); err == nil {
		envVarMentioned = strings.Contains(string(b), "LIFTBRIDGE_TELEMETRY_ENABLED")
	}

	// every non-test Go file importing net/http
	var httpFiles []string
	filepath.Walk(repo, func(path string, info os.FileInfo, err error) error {
		if err != nil {
			return nil
		}
		if info.IsDir() && (info.Name() == ".git" || info.Name() == "website" || info.Name() == "vendor") {
			return filepath.SkipDir
		}
		if strings.HasSuffix(path, ".go") && !strings.HasSuffix(path, "_test.go") {
			f, err := parser.ParseFile(token.NewFileSet(), path, nil, parser.ImportsOnly)
			if err == nil {
				for _, im := range f.Imports {
					if im.Path.Value == "\"net/http\"" {
						rel, _ := filepath.Rel(repo, path)
						httpFiles = append(httpFiles, rel)
					}
				}
			}
		}
		return nil
	})
	sort.Strings(httpFiles)

	b := func(x bool) string {
		if x {
			return "true"
		}
		return "false"
	}
	fmt.Println("(* GENERATED by translate/telemetry.go from the current sources of /repo -- do not edit *)")
	fmt.Println("From Coq Require Import List String Bool.")
	fmt.Println("Import ListNotations.")
	fmt.Println("Open Scope string_scope.")
	fmt.Printf("Definition payload_keys : list string := %s.\n", coqList(keys))
	fmt.Printf("Definition payload_sources : list string := %s.\n", coqList(collect("collectPayload")))
	fmt.Printf("Definition send_sources : list string := %s.\n", coqList(collect("sendTelemetry")))
	fmt.Printf("Definition send_callers : list string := %s.\n", coqList(sendCallers))
	fmt.Printf("Definition run_callers : list string := %s.\n", coqList(runCallers))
	fmt.Printf("Definition start_returns_when_disabled : bool := %s.\n", b(startChecks))
	fmt.Printf("Definition server_new_guards : list string := %s.\n", coqList(newGuards))
	fmt.Printf("Definition server_start_guards : list string := %s.\n", coqList(startGuards))
	fmt.Printf("Definition server_telemetry_assignments : list string := %s.\n", coqList(telAssign))
	fmt.Printf("Definition config_writes_enabled : list string := %s.\n", coqList(cfgWrites))
	fmt.Printf("Definition config_env_before_default_return : bool := %s.\n", b(envBeforeEarlyReturn))
	fmt.Printf("Definition config_env_after_file : bool := %s.\n", b(envAfterFile))
	fmt.Printf("Definition config_mentions_env_var : bool := %s.\n", b(envVarMentioned))
	fmt.Printf("Definition http_importers : list string := %s.\n", coqList(httpFiles))
}
